"""Per-property job tables for ./check (see DESIGN.md section 4).

jobs:   kind "rapid"  -> TestXxx driven by rapid with quick/thorough total case counts split over shards
        kind "enum"   -> TestXxx enumerating a finite sub-space, sharded by VERIF_SHARD/VERIF_NSHARDS
        kind "plain"  -> TestXxx run once (shards: 1)
floors: label -> (denominator label or "*", minimal fraction); a generated class the
        property names that falls below its floor makes the run inconclusive (exit 2).
"""

COMMON_ASSUMPTIONS = [
    "Go toolchain 1.23.5, its runtime, math/big and strconv are trusted",
    "pgregory.net/rapid v1.3.0 generates and shrinks cases; a run is a function of the tree and VERIF_SEED",
    "the reference model in /verif/harness/model (written from SEMI E5/E37 and the godoc, no import of the library) is the oracle",
    "absence of violations is only claimed for the cases generated/enumerated in this run",
]

PROPS = {
    "C01": {
        "level": "exploration",
        "jobs": [
            {"test": "TestC01", "kind": "rapid", "quick": 100000, "thorough": 1500000},
            {"test": "TestC01Big", "kind": "enum", "tier": "thorough", "shards": 10},
        ],
        "floors": {"lenbytes=2": ("job:TestC01", 0.01), "lenbytes=3": ("job:TestC01", 0.003),
                   "nonempty-binary": ("job:TestC01", 0.02), "route:sml-parser": ("job:TestC01", 0.05),
                   "route:hsms-decoder": ("job:TestC01", 0.05), "route:template+fill": ("job:TestC01", 0.1), "medium-size-leaf": ("job:TestC01", 0.05)},
        "rule": "rapid-generated complete data messages (header: 128x256 codes, wait bit, boundary+random session ids and system bytes; "
                "variable-free item trees over the 14 formats incl. payloads straddling the 1|2|3 length-byte borders, leaves of medium size (powers of two +-2, any count 7..300) and deep chains) built by four routes "
                "(constructors / template completed by the three producers in random order / SML parser / output of the HSMS decoder). Oracle: round trip "
                "hsms.Parse(m.ToBytes()) ok, header fields equal, printed item tree equal, re-encoding equal. Non-trivial: >= 1 element and (>= 2 formats or a "
                "2+-byte length field or depth >= 2); distinct = FNV-64 of the case.",
        "assumptions": COMMON_ASSUMPTIONS,
    },
    "C03": {
        "level": "fault_enumeration",
        "jobs": [
            {"test": "TestC03", "kind": "rapid", "quick": 3200, "thorough": 40000},
            {"test": "TestC03Unstructured", "kind": "rapid", "quick": 80000, "thorough": 1600000},
            {"test": "TestC03Large", "kind": "enum"},
        ],
        "fuzz": [{"fuzz": "FuzzC03", "budget_s": 180}],
        "floors": {"ref:accept-noncanonical": ("job:TestC03", 0.001), "origin:truncate-patched": ("job:TestC03", 0.03),
                   "origin:length-byte": ("job:TestC03", 0.03), "origin:format-nlb": ("job:TestC03", 0.01),
                   "ref:reject:trailing-bytes-after-item": ("job:TestC03", 0.005)},
        "rule": "for each rapid-generated valid message (data and control): the canonical encoding, re-encodings with non-minimal length bytes and non-0/1 "
                "booleans, and EVERY single-point corruption of a fixed catalogue aimed with the reference encoder's layout map (each truncation point with/without "
                "patched outer length, appended bytes, each frame/header byte set to 0/1/7F/80/FF/+-1/bit flips, each format byte with every other format code and "
                "every length-byte count, each length byte +-1/0/FF, ASCII byte >= 0x80, non-finite floats); plus unstructured bytes and item soups. Oracle: same "
                "accept/reject decision as the strict reference decoder, equal header fields, and ToBytes() == canonical re-encoding of the reference-decoded message. "
                "Non-trivial: the outer length check passes and the input is not a canonical valid encoding; distinct = FNV-64 of the input bytes.",
        "notes": ["a control message carrying text after its header is outside the accept rule and contradicts the re-encoding rule of C03: both outcomes are tolerated (DESIGN 3.8)"],
        "assumptions": COMMON_ASSUMPTIONS,
    },
    "C13": {
        "level": "exploration",
        "jobs": [
            {"test": "TestC13Sweep", "kind": "enum"},
            {"test": "TestC13Items", "kind": "enum"},
        ],
        "exhaustive": {"quick": False, "thorough": True},
        "rule": "sweep of the header routine (verif-tagged export) over (format, element count): thorough = every count with count*width in 0..16,777,215 plus the next 64 "
                "(about 136M calls, exhaustive), quick = all counts <= 70000, +-300 around each border, seeded stride beyond; plus real items built through the factories at "
                "counts {0,1, around 255|256 and 65535|65536, limit-1, limit, limit+1, limit+2} for all 14 formats - each size with four different payloads (a plain value, the largest value / all bits set, the smallest / sign bit only, a byte pattern with delimiter-like bytes; ASCII: x, DEL, NUL, percent sign) -, encoded, framed and decoded back - at the length-field borders also as a child of a list, alone and between siblings; lists expanded through an ellipsis, top-level and nested, up to the limit and one beyond (refused); SML: a two-element item of every format with a declared upper bound at and beyond the capacity of the format must be accepted. Oracle: reference header "
                "(format code, shortest big-endian length, 1/2/3 bytes at exactly 255|256 and 65535|65536, refusal beyond the limit); factory succeeds iff count*width <= 16,777,215; "
                "ToBytes() non-empty with that header and exact total length; decoder re-encodes to the same bytes. Non-trivial: count > 0; distinct by (format, count) by construction.",
        "assumptions": COMMON_ASSUMPTIONS + ["hook: pkg/ast/export_verif.go (build tag verif) only forwards to the unexported header routine"],
    },
    "C14": {
        "level": "exploration",
        "jobs": [{"test": "TestC14", "kind": "enum"}],
        "exhaustive": {"quick": False, "thorough": True},
        "rule": "enumeration: all 65536 (PType, SType) pairs through NewHSMSControlMessage (other header bytes pseudo-random); all 65536 session ids through select/deselect/separate/"
                "reject requests and select/deselect responses; all 256 status codes x 3 response constructors x 11 kinds of request argument (8 control kinds, undefined SType, "
                "undefined PType, data message); reject.req over (ptype, stype, reason): all 2^24 (thorough) or 12x12x256 boundary + 20000 random (quick). Oracle: reference table "
                "(14 bytes, length 10, fixed positions, echo rules, refusal of wrong request kind), Type() == f(PType, SType), hsms.Parse round trip iff PType 0 and defined SType "
                "(reference decoder otherwise). Non-trivial: non-zero session or code, or a raw header; distinct = FNV-64 of the case.",
        "exhaustive_note": {"quick": "exhaustive: (PType,SType) pairs, session ids, status codes x request kinds", "thorough": "additionally exhaustive: all 2^24 reject.req triples"},
        "assumptions": COMMON_ASSUMPTIONS,
    },
    "C12": {
        "level": "exploration",
        "jobs": [
            {"test": "TestC12Value", "kind": "rapid", "quick": 800000, "thorough": 4800000},
            {"test": "TestC12ASCII", "kind": "rapid", "quick": 40000, "thorough": 800000, "shards": 4},
            {"test": "TestC12Name", "kind": "rapid", "quick": 40000, "thorough": 800000, "shards": 4},
            {"test": "TestC12List", "kind": "rapid", "quick": 20000, "thorough": 200000, "shards": 2},
            {"test": "TestC12Msg", "kind": "rapid", "quick": 40000, "thorough": 800000, "shards": 4},
        ],
        "floors": {"outcome:refused": ("job:TestC12Value", 0.15), "outcome:stored": ("job:TestC12Value", 0.3), "via:fill": ("job:TestC12Value", 0.3),
                   "msg:valid=false": ("job:TestC12Msg", 0.2), "msg:valid=true": ("job:TestC12Msg", 0.2)},
        "rule": "every factory x every accepted Go argument type (int..int64, uint..uint64, float32/64, bool, binary strings) x values at and beyond every boundary of the target "
                "item type and of the Go type (plus random bit patterns, magnitudes of every bit length and byte patterns with zero / all-ones / sign-bit halves), directly and through FillVariables; 7-bit / non-7-bit / invalid UTF-8 strings; variable names from a grammar of "
                "valid and near-valid spellings at every site incl. duplicates within a node and across a tree; ellipsis placement/multiplicity; message factories and producers with "
                "stream/function/wait/direction/session/name at and beyond their ranges (names with every Unicode space). Oracle: from the mathematical value (math/big): in the domain "
                "=> no panic, the value read back from String() by an independent reader equals it (floats: rounded to the width) and ToBytes() == reference encoding, and the stored item shows the same printed text and the same bytes as a child of a list (alone, between siblings, inserted by a fill); outside => panic. "
                "Non-trivial: value within 1 of a boundary of the target or Go type, or a refused case; distinct = FNV-64 of the case.",
        "notes": ["F4 magnitudes in (MaxFloat32, MaxFloat32 + half ulp] are EITHER; integers wider than 53 bits into F4 may be rounded once or twice (both accepted)"],
        "assumptions": COMMON_ASSUMPTIONS,
    },
    "C16": {
        "level": "exploration",
        "jobs": [{"test": "TestC16", "kind": "rapid", "quick": 300000, "thorough": 2000000},
                 {"test": "TestC16Decoded", "kind": "rapid", "quick": 100000, "thorough": 1500000}],
        "floors": {"post-expansion": ("job:TestC16", 0.05), "message": ("job:TestC16", 0.15), "vars>=2:true": ("job:TestC16", 0.25), "collision:refused-at-construction": ("job:TestC16", 0.02), "collision:refused-at-expansion": ("job:TestC16", 0.0001),
                   "decoded:accepted": ("job:TestC16Decoded", 0.08), "decoded:refused": ("job:TestC16Decoded", 0.1)},
        "rule": "rapid-generated item trees and messages with element variables, ASCII variables, item variables and ellipses anywhere (also trees obtained by expanding ellipses); "
                "every sub-item is observed too. Oracle (relational, three observers): Variables() == names read off String() by an independent reader, in order, each once (ellipses as ...); "
                "len(ToBytes()) > 0 iff that list is empty; Size() == number of printed elements (-1 for an ASCII variable) and equals the printed [n]; message ToBytes non-empty iff complete. "
                "TestC16Decoded: the same for the objects the DECODER hands out - reference encodings of generated messages, intact or damaged (cut anywhere with the outer length patched, one byte changed / removed, bytes appended): "
                "whatever hsms.Parse accepts lists no variable, shows no name, prints as many children as each list's size says and encodes to more than the header whenever it prints an item. "
                "Non-trivial: >= 2 variables in >= 2 different nodes (decoded: an accepted damaged frame); distinct = FNV-64 of the case.",
        "assumptions": COMMON_ASSUMPTIONS,
    },
    "C18": {
        "level": "exploration",
        "jobs": [{"test": "TestC18", "kind": "rapid", "quick": 150000, "thorough": 3000000}],
        "floors": {"refused:session": ("job:TestC18", 0.05), "refused:wait": ("job:TestC18", 0.02), "wait:already-decided": ("job:TestC18", 0.1),
                   "wait:resolves": ("job:TestC18", 0.1), "start:hsms": ("job:TestC18", 0.05), "fill:item-holding-the-placeholder-name": ("job:TestC18", 0.01)},
        "rule": "rapid-generated messages (complete or not: optional/decided wait bit, with/without session, templates with variables) x histories of 1..6 producer calls "
                "(SetWaitBit true/false on odd/even functions and on decided wait bits; SetSessionIDAndSystemBytes with session ids -2,-1,0,..,65535,65536,.. and 0..8 system bytes; "
                "FillVariables with subsets of the bindings, repeated keys, unknown keys and items that themselves hold a variable of the placeholder's name; about a quarter of the variable names are legal names that mean something else as text - T, f, L, u1, true, is_true, NaN, x[0] next to x, S1F1 -, the templates never pass through SML). Oracle: 8-field record model; after every call Name/StreamCode/FunctionCode/WaitBit/"
                "Direction/SessionID/SystemBytes/Header/String/Variables/ToBytes of the result equal the model's (String against the directly constructed item, ToBytes against the "
                "reference encoder), the receiver is unchanged, and the call panics iff the model says the result is invalid. Non-trivial: >= 2 calls of >= 2 different producers.",
        "assumptions": COMMON_ASSUMPTIONS,
    },
    "C10": {
        "level": "exploration",
        "jobs": [
            {"test": "TestC10Enum", "kind": "enum"},
            {"test": "TestC10", "kind": "rapid", "quick": 60000, "thorough": 1200000},
        ],
        "exhaustive": {"quick": False, "thorough": False},
        "floors": {"filled-n>0": ("job:TestC10", 0.3), "rounds=2": ("job:TestC10", 0.15), "one-call:stale-key-ignored": ("job:TestC10", 0.05),
                   "one-call:refused-value-next-to-counts": ("job:TestC10", 0.05), "one-call:counts+unchanged-names": ("job:TestC10", 0.1)},
        "rule": "(i) all list templates with <= 3 entries over {value item, item with variable, ASCII variable, item variable, ellipsis, nested list of <= 2 such entries} x every "
                "assignment of {absent,0,1,2} to each ellipsis (thorough: all; quick: a seeded quarter), single ellipses named both ... and ...[0]; (ii) rapid-generated templates of depth <= 4, "
                "<= 5 entries, counts 0..4, partial assignments, 1-3 successive rounds of fills (later rounds act on already expanded templates with suffixed names). Oracle: reference expander "
                "written from the list documentation: equal String(), Size(), Variables() (ellipsis names modulo the documented renumbering), all names unique; then every variable of the result "
                "is filled alone (value of the owning item's type / count 1 for an ellipsis) and compared with the model again; one call with counts, names the expansion generates and names it leaves unchanged equals the two calls one after the other; a value that is refused alone (a number for an item variable) is refused next to repeat counts; a key that names a variable only before the expansion changes nothing. Non-trivial: >= 1 ellipsis filled with n >= 1 and >= 1 variable renamed.",
        "exhaustive_note": {"quick": "a quarter of the exhaustive small-template set", "thorough": "exhaustive small-template set (depth <= 2)"},
        "assumptions": COMMON_ASSUMPTIONS,
    },
    "C09": {
        "level": "exploration",
        "jobs": [{"test": "TestC09", "kind": "rapid", "quick": 250000, "thorough": 2000000}],
        "floors": {"related-name": ("job:TestC09", 0.05), "wordy-name": ("job:TestC09", 0.05), "keyword-like-name": ("job:TestC09", 0.05), "refused": ("job:TestC09", 0.03), "composition:steps=2": ("job:TestC09", 0.03), "composition:steps=3": ("job:TestC09", 0.03),
                   "message": ("job:TestC09", 0.1), "hits>=1:true": ("job:TestC09", 0.5), "key-names-variable-brought-by-inserted-value": ("job:TestC09", 0.004)},
        "rule": "rapid-generated templates (all node kinds, nesting, variables anywhere, with and without unfilled ellipses) x assignments (hits, misses, unknown keys, Go argument "
                "types by variant, values outside the item's domain / outside declared string bounds, item-variable values that are variable-free subtrees, subtrees with own variables, or "
                "renames) x an ordered partition of the assignment into 1..4 fills; message level for a third of the cases. Oracle: reference substitution model: FillVariables result has the "
                "same String/Variables/Size/ToBytes as the directly constructed item, panics iff direct construction is refused, unmentioned variables keep their order, the caller's map is "
                "unchanged; for ellipsis-free templates and variable-free values every prefix of the partial fills equals direct construction and the fold equals the one-shot fill; completed "
                "message bytes equal the reference encoding. Non-trivial: the assignment hits >= 1 variable and the template has >= 2 variables or depth >= 2.",
        "assumptions": COMMON_ASSUMPTIONS,
    },
    "C11": {
        "level": "exploration",
        "jobs": [{"test": "TestC11", "kind": "rapid", "quick": 100000, "thorough": 480000}],
        "floors": {"op:observe": ("job:TestC11", 0.5), "op:decode": ("job:TestC11", 0.3), "op:fill": ("job:TestC11", 0.5)},
        "rule": "rapid-generated histories (2..30 steps) over a growing pool of items, data messages and control messages: build an item from generated arguments (then overwrite the "
                "argument slices), build a list sharing pooled items, FillVariables on a pooled item/message with values that vary from call to call - zeros of both signs for floats, renames onto a name that the same call releases - (then overwrite and extend the map), NewDataMessage/NewHSMSDataMessage from a "
                "pooled item, SetWaitBit, SetSessionIDAndSystemBytes (then overwrite the passed bytes), observers ToBytes/Variables/SystemBytes (then overwrite every returned slice in place), "
                "hsms.Parse of pooled bytes (then overwrite the input buffer), control-message constructors (then overwrite header / system-bytes argument), responses from pooled requests. "
                "Oracle (history invariant): after every step the snapshot (String, ToBytes, Variables, Size, Name, codes, wait bit, direction, session id, system bytes, Header, Type) of every "
                "pooled object equals the snapshot taken when it entered the pool. Non-trivial: >= 1 in-place write and >= 1 derivation; distinct = FNV-64 of the history.",
        "assumptions": COMMON_ASSUMPTIONS,
    },
    "C05": {
        "level": "exploration",
        "jobs": [{"test": "TestC05", "kind": "rapid", "quick": 80000, "thorough": 2000000}],
        "fuzz": [{"fuzz": "FuzzSML", "budget_s": 120}],
        "floors": {"bad:repeated-variable-in-one-item": ("job:TestC05", 0.008), "class:reject": ("job:TestC05", 0.2), "spell:hex": ("job:TestC05", 0.2), "spell:octal": ("job:TestC05", 0.1), "spell:binary": ("job:TestC05", 0.1),
                   "spell:ascii-code": ("job:TestC05", 0.1), "spell:backslash-in-quotes": ("job:TestC05", 0.01), "spell:float-e": ("job:TestC05", 0.05),
                   "size:range": ("job:TestC05", 0.05)},
        "rule": "texts built FROM values: rapid draws 1-3 messages (header, item tree over the 14 types with values, variables, bounded ASCII variables, ellipses) and a speller draws the "
                "spelling of every literal and keyword (decimal / 0x / 0o / 0b with either-case prefixes and digits, signs, floats as shortest / %e / %f / 25-digit / integer-looking with "
                "e or E and optional +, strings as quoted runs of any printable ASCII incl. backslash, //, <, >, . split into several runs (also empty ones) and character codes in any base, T/F/t/f, type names "
                "and header tokens in any case, optional size declarations in all four forms). In a third of the cases one literal that the item type cannot represent (just out of range, "
                "wrongly typed, non-ASCII, invalid UTF-8, absurdly large, a variable in front of the values of an ASCII item; for every integer type incl. the 64-bit ones at random distances beyond the range and around the multiples of the wrap-around modulus) is inserted. Oracle: MUST-ACCEPT texts: no error, one message per written message, header fields and variables equal, "
                "String() equal to the message constructed directly from the denoted values, and after completion ToBytes() == reference encoding of the denoted values; MUST-REJECT texts (also: a variable next to the values of an ASCII item, the same variable twice in one item): "
                ">= 1 error and no message. Non-trivial: >= 1 literal that is not a plain decimal/shortest float, or a rejected text.",
        "notes": ["spellings whose denotation is not documented (+5 in an unsigned item, -0, 5. / .5, leading-zero decimals, hex in float items, raw control characters inside quotes) are not generated"],
        "assumptions": COMMON_ASSUMPTIONS + ["strconv.FormatFloat in the generator writes literals that denote the intended float"],
    },
    "C04": {
        "level": "exploration",
        "jobs": [
            {"test": "TestC04", "kind": "rapid", "quick": 60000, "thorough": 1500000},
            {"test": "TestC04Accepted", "kind": "rapid", "quick": 40000, "thorough": 800000},
        ],
        "fuzz": [{"fuzz": "FuzzSML", "budget_s": 120}],
        "floors": {"has:quote": ("job:TestC04", 0.02), "has:backslash": ("job:TestC04", 0.02), "has:control-char": ("job:TestC04", 0.05), "has:ellipsis": ("job:TestC04", 0.1),
                   "has:ascii-variable": ("job:TestC04", 0.02), "has:float": ("job:TestC04", 0.1), "has:name": ("job:TestC04", 0.4), "text:accepted": ("job:TestC04Accepted", 0.15)},
        "rule": "(i) rapid-generated data messages (any header incl. optional wait bit, 3 directions, multi-script names that the header lexer reads as one name; item trees with values of "
                "all 14 types incl. every ASCII code 0..127, boundary numbers and floats, element variables, bounded ASCII variables, item variables, nested ellipses in either naming) built "
                "through the factories, printed, parsed: exactly 1 message, 0 errors, 0 warnings, equal header fields, variables (modulo the documented ellipsis numbering), printed form, "
                "and, after completing both sides from the printed form alone, equal bytes; the re-parsed message is also compared with the model. (ii) for every accepted text (generated "
                "free-layout texts and token soups) each returned message is printed and parsed again: fixed point. Non-trivial: tree contains a character outside [A-Za-z0-9 ], a float, a "
                "variable or an ellipsis (i) / the text was accepted with >= 1 message (ii).",
        "assumptions": COMMON_ASSUMPTIONS,
    },
    "C06": {
        "level": "exploration",
        "jobs": [{"test": "TestC06", "kind": "rapid", "quick": 60000, "thorough": 1000000},
                 {"test": "TestC06Known", "kind": "plain", "shards": 1}],
        "fuzz": [{"fuzz": "FuzzSML", "budget_s": 240}],
        "floors": {"origin:soup": ("job:TestC06", 0.2), "origin:hostile-tail": ("job:TestC06", 0.05), "origin:nesting": ("job:TestC06", 0.05), "origin:valid-text": ("job:TestC06", 0.1), "origin:mutated-valid-text": ("job:TestC06", 0.1),
                   "outcome:accepted": ("job:TestC06", 0.1), "outcome:errors": ("job:TestC06", 0.3)},
        "rule": "strings up to 64 KiB: token soups over the SML vocabulary with hostile fragments (20-40 digit numbers in stream/function/sizes/literals, every Unicode space in every "
                "position, invalid UTF-8, NUL, unclosed quotes and brackets, duplicated variables with and without huge sizes), nesting up to the depth cap, valid generated texts under "
                "random layouts, the same with one token- or byte-level mutation, valid texts ended right behind a token (with raised weight between items / messages) by a fragment that leaves the lexer in the middle of a string, size, comment, number, name or multi-byte character or is a complete size block out of place, random bytes. Oracle, in an isolated worker process (RLIMIT_AS 4 GiB, 20 s + 60 s two-stage watchdog): "
                "returns normally (no escaping panic, no fatal runtime error, no hang); errors => no messages; valid-by-construction texts without errors return every written message in order; "
                "every error and warning reads Ln x, Col y: text with the position inside the input. Non-trivial: the input contains a complete SxFy token.",
        "notes": ["operational limits (part of the property's definition here): input <= 64 KiB, address space 4 GiB, watchdog 20 s then 60 s alone in a fresh worker; nesting depth capped (300 quick / 2000 thorough) because parsing is quadratic in depth"],
        "assumptions": COMMON_ASSUMPTIONS + ["a watchdog expiry is never a verdict by itself: the input is re-run alone; only a second expiry is reported as a hang"],
    },
    "C08": {
        "level": "exploration",
        "jobs": [{"test": "TestC08", "kind": "rapid", "quick": 60000, "thorough": 1200000}],
        "floors": {"case-flipped": ("job:TestC08", 0.15), "outcome:errors": ("job:TestC08", 0.2), "outcome:messages": ("job:TestC08", 0.3), "diag-position-compared": ("job:TestC08", 0.2)},
        "rule": "a token sequence (1-3 generated messages with drawn spellings; valid, or made invalid by dropping / duplicating / inserting one token) rendered under two independently "
                "drawn layouts: separators from {SP, TAB, LF, CRLF, runs, nothing where tokens cannot fuse}, optional // comments before line ends (text in Latin-1, Cyrillic, CJK, emoji, "
                "quotes, //, <, ., trailing blanks, and with raised weight a last character whose final UTF-8 byte is 0x85 or 0xA0), and in half of the cases the opposite letter case for "
                "stream/function letters, W, directions, type names, T/F, number prefixes and exponent letters. Oracle (metamorphic): same number of messages with equal String(); same "
                "number of errors and warnings with equal texts (case-folded when the case differs); each diagnostic position that is the start of token k under layout A is the start of "
                "token k under layout B. Non-trivial: the layouts differ in a comment or a line break.",
        "assumptions": COMMON_ASSUMPTIONS,
    },
    "C15": {
        "level": "exploration",
        "jobs": [
            {"test": "TestC15Enum", "kind": "enum"},
            {"test": "TestC15", "kind": "rapid", "quick": 40000, "thorough": 800000},
        ],
        "floors": {"literal:within": ("job:TestC15", 0.1), "literal:outside": ("job:TestC15", 0.2), "variable:small-bounds": ("job:TestC15", 0.03), "variable:huge-bounds": ("job:TestC15", 0.01), "exotic-blank-in-declaration:refused": ("job:TestC15", 0.02)},
        "rule": "exhaustive: 4 declaration forms x 14 item types x lower, upper, actual element count in 0..5 (literal items, alone and as list children; lists of literal children; ASCII literals also as one run per character plus 1..3 empty runs; the violating item also twice on one line, position of the second report checked); ASCII "
                "variables with every form and bounds 0..5 directly and carried through a list expansion; NewASCIINodeVariable over a grid of (min, max) incl. invalid ones. Random: bounds "
                "with 1-25 digits incl. 2^31, 2^63, 2^64 borders, bounds spelled with leading zeros (only spellings with one possible reading: value below 8 or a digit 8/9 present), blanks inside the brackets (also Unicode blanks outside ASCII: such a declaration may be refused, if accepted its bounds hold as written), counts near the declared bounds. Oracle: a literal is accepted iff lower <= count <= upper "
                "(math/big; missing bound = unbounded) and then holds exactly that many elements; otherwise no message and an error at the line/column of the '[' token; an ASCII variable "
                "keeps its bounds (printed back for bounds that fit, fixed point of print/parse), strings are accepted iff their length lies inside (probed at lower-1, lower, upper, upper+1, "
                "0, 5), lower > upper is an error, FillInStringLength() returns the constructor arguments. Non-trivial: count within 1 of a declared bound, or a variable case.",
        "exhaustive_note": {"quick": "exhaustive small-number part runs in both tiers", "thorough": "exhaustive small-number part runs in both tiers"},
        "notes": ["when the lower bound exceeds 2^63-1 (no string can satisfy it) the outcome of lower > upper is not pinned"],
        "assumptions": COMMON_ASSUMPTIONS,
    },
    "C19": {
        "level": "exploration",
        "jobs": [{"test": "TestC19", "kind": "rapid", "quick": 40000, "thorough": 800000}],
        "floors": {"shared-variable-name": ("job:TestC19", 0.15), "ellipses-in-2+-texts": ("job:TestC19", 0.05), "warnings-compared": ("job:TestC19", 0.1), "long-run-of-small-messages": ("job:TestC19", 0.02)},
        "rule": "2..4 accepted texts (1-2 generated messages each, drawn spellings and layouts, trailing blanks / newline-terminated comments) or a long run of 20-150 small list-heavy messages, half of the time re-using the previous "
                "text's template so that variable names and ellipses recur, joined by {nothing, blanks, LF, CRLF, TAB, blank line, comment+LF}. Oracle: Parse(join) has no errors and returns "
                "the concatenation of the individual results (header fields, String(), Variables(), session id, bytes once completed from the printed form); warnings equal in text with "
                "positions shifted by the known line/column offset. Texts that are not accepted alone are excluded and counted. Non-trivial: >= 2 texts sharing a variable name or both "
                "containing an ellipsis.",
        "assumptions": COMMON_ASSUMPTIONS,
    },
    "C07": {
        "level": "exploration",
        "jobs": [
            {"test": "TestC07", "kind": "rapid", "quick": 40000, "thorough": 600000},
            {"test": "TestC07Known", "kind": "plain", "shards": 1},
        ],
        "fuzz": [{"fuzz": "FuzzC07", "budget_s": 180}],
        "floors": {"declared-length-exceeds-input": ("job:TestC07", 0.2), "input>64KiB": ("job:TestC07", 0.03), "gen:chain": ("job:TestC07", 0.015), "gen:chain-with-leaves": ("job:TestC07", 0.015), "gen:nested-overdeclared-lists": ("job:TestC07", 0.04), "decoded:ok": ("job:TestC07", 0.1)},
        "rule": "byte strings decoded in an isolated worker process (address space limited to 4 GiB): short inputs declaring huge lengths (1/2/3 length bytes FF.., every format, nesting "
                "depth 0..64), long valid items (64 KiB..256 KiB quick / 4 MiB thorough of A, B, BOOLEAN, I1, I2, U8, F4 and lists of small items), truncated items with patched outer "
                "length, nested chains up to the depth cap, wide lists of lists, random bytes with and without a correct frame. Oracle: the call returns normally (an escaping panic or a "
                "process death is a violation) and the runtime.MemStats.TotalAlloc delta around the call is <= 256 KiB + 2048 x len(input). Non-trivial: the outer length is correct and "
                "some declared item length exceeds the bytes that remain, or the input is longer than 64 KiB.",
        "notes": ["generators cap list nesting at 2000 (decoding time is quadratic in depth); the open known finding on extreme nesting (fatal stack overflow at ~10M levels) is reproduced by TestC07Known on every run",
                  "worst legitimate allocation ratio observed is far below the limit (see labels alloc-ratio>=256 / >=1024)"],
        "assumptions": COMMON_ASSUMPTIONS + ["TotalAlloc of the worker process around one Parse call is attributed to that call (the worker is single-threaded apart from the runtime)"],
    },
    "C17": {
        "level": "exploration",
        "race": True,
        "jobs": [{"test": "TestC17", "kind": "rapid", "quick": 4800, "thorough": 60000, "race": True, "shards": 48, "gomaxprocs": [2, 4, 8, 16, 3, 16, 1, 6]}],
        "parallel": 8,
        "floors": {"goroutines=8": ("job:TestC17", 0.3), "goroutines=32": ("job:TestC17", 0.05)},
        "rule": "rapid draws shared objects (an item template with variables and ellipses, a data message around it, a complete message, an SML text - sometimes with an error - and an "
                "HSMS encoding - sometimes truncated) and a list of 2..8 operations out of 17 (String, ToBytes, Variables, Size, FillVariables incl. ellipsis expansion, Header, SetWaitBit, "
                "SetSessionIDAndSystemBytes, SystemBytes with a write to the returned slice, sml.Parse, hsms.Parse, building a new list that shares the item). The operations are run sequentially "
                "for the expected results, then by 2..32 goroutines released together, 1..4 rounds, with GOMAXPROCS varied per shard. Oracle: binary built with -race and GORACE=halt_on_error "
                "(any report fails the run, the case in flight is the replay), and every concurrent result equals the sequential one. Non-trivial: >= 2 goroutines applying >= 1 producer.",
        "notes": ["schedules are sampled, not enumerated: the harness does not own the Go scheduler. The race detector's happens-before analysis reports a racy pair of accesses on (almost) any run in which both execute"],
        "assumptions": COMMON_ASSUMPTIONS + ["Go race detector (ThreadSanitizer runtime) reports unsynchronised conflicting accesses that actually execute"],
    },
    "C02": {
        "level": "exploration",
        "jobs": [
            {"test": "TestC02", "kind": "rapid", "quick": 200000, "thorough": 2400000},
            {"test": "TestC02Enum", "kind": "enum"},
        ],
        "floors": {"item:lenbytes=2": ("job:TestC02", 0.004), "item:lenbytes=3": ("job:TestC02", 0.001),
                   "msg:incomplete:optional-wait": ("job:TestC02", 0.02), "msg:incomplete:variables": ("job:TestC02", 0.01),
                   "msg:incomplete:no-session": ("job:TestC02", 0.02), "msg:completed-after-staged-ellipsis-fills": ("job:TestC02", 0.01)},
        "rule": "rapid-generated item trees over the 14 formats (boundary+uniform values, element counts straddling 255|256 and 65535|65536, "
                "deep chains) and complete/incomplete messages, built through the public factories with varying Go argument types; incomplete messages are completed afterwards "
                "(templates with ellipses in stages: one ellipsis per call with counts 0..2, the last one first, then the generated variables, then the header) and compared with the reference expansion; plus enumerations "
                "(every I1/U1/B/I2/U2 value singly and all in one item, every element count 0..300 per format, boundary bit patterns of the wide formats, "
                "F4 bit patterns). Oracle: ToBytes() byte-for-byte equal to the independent SEMI E5/E37 reference encoder; incomplete message/item => empty. "
                "Non-trivial: the item has >= 1 element, or the message is incomplete for a stated reason; distinct = 64-bit FNV hash of the case.",
        "exhaustive_note": {
            "quick": "exhaustive: all values of I1, U1, B, I2, U2; element counts 0..300 x 12 array formats. F4: stratified 2^20-ish sample",
            "thorough": "exhaustive: all values of I1, U1, B, I2, U2; element counts 0..300 x 12 array formats; all 2^32 F4 bit patterns",
        },
        "assumptions": COMMON_ASSUMPTIONS,
    },
}

HOOK_COMMITS = ["013f498"]
NOT_APPLICABLE = {}

_PBT = "property-based testing (pgregory.net/rapid generators + shrinking)"
MANIFEST_TEXT = {
    "C17": {
        "technique": _PBT + " over operation mixes executed by many goroutines under the Go race detector; differential oracle concurrent result == sequential result",
        "level_text": "Sampled schedules: generated mixes of read-only and producer operations on shared objects and concurrent parser invocations, 2..32 goroutines, varied GOMAXPROCS, race-detector build. "
                      "This family cannot enumerate interleavings; the check realistically detects shared mutable state (caches, memoisation, shared buffers) through the race detector.",
        "level_note": "Limits: interleavings are those the runtime happens to produce; a logic error that needs a particular interleaving but involves no data race may be missed.",
    },
    "C07": {
        "technique": "fuzzing with structured hostile-length generators (rapid) in an isolated worker process with an address-space limit + native coverage-guided go fuzzing (thorough); totality and allocation-bound oracle",
        "level_text": "Generated hostile and long inputs are decoded in a separate process so that fatal runtime errors are observable; total allocation is measured per call and compared with a "
                      "fixed linear bound. The open known finding on extreme nesting is reproduced on every run and excluded from the generators by a depth cap.",
        "level_note": "Limits: 4 GiB address space, linear bound 256 KiB + 2048 B per input byte (legitimate use stays about one order of magnitude below), nesting cap 2000.",
    },
    "C19": {
        "technique": "metamorphic " + _PBT + ": Parse(t1+sep+t2+...) must equal the concatenation of Parse(ti), warnings modulo the known position shift",
        "level_text": "Generated sequences of accepted texts with deliberately recurring variable names and ellipses, joined by every separator the grammar allows after a terminator.",
        "level_note": "Trusted: observational equality of messages (header fields, printed form, variables, completed bytes) stands for deep equality, as a DataMessage exposes no item accessor.",
    },
    "C15": {
        "technique": "exhaustive enumeration of small (form, type, lower, upper, count) tuples + " + _PBT + " for large/overflowing bounds; oracle lower <= count <= upper computed with math/big, error position known by construction",
        "level_text": "The small-number space is enumerated completely on every run; random generation covers many-digit bounds, blanks and boundary counts; ASCII-variable bounds are checked "
                      "through print-back and fill probes at both edges, also after a list expansion.",
        "level_note": "Trusted: the text builder in c15_test.go knows where the '[' token is.",
    },
    "C08": {
        "technique": "metamorphic " + _PBT + ": the same token sequence under two generated layouts / letter cases must parse to the same messages and diagnostics (positions mapped token by token)",
        "level_text": "Generated pairs of layouts over valid and invalid token sequences; relation checked on messages, diagnostic texts and diagnostic positions.",
        "level_note": "Trusted: the renderer's rule for where no separator is needed (tokens that cannot fuse); positions inside a token are not compared.",
    },
    "C04": {
        "technique": _PBT + ": print->parse round trip and fixed-point oracle over generated messages and over accepted generated texts; native fuzzing (thorough)",
        "level_text": "Round-trip exploration in both directions: factory-built messages printed and parsed back (compared on header, variables, text, bytes and against the model), and accepted "
                      "texts re-printed and re-parsed.",
        "level_note": "Trusted: model.ReadItem to derive completion values from the printed form; names are restricted to what the header lexer reads as one name (independent predicate).",
    },
    "C06": {
        "technique": "fuzzing with structured generators (rapid token soups, mutations of valid texts, random bytes) in an isolated worker process + native coverage-guided go fuzzing (thorough); totality / all-or-nothing / diagnostic-format oracle",
        "level_text": "Generated hostile inputs are parsed in a separate process with an address-space limit and a watchdog, so panics, fatal runtime errors (out of memory, stack overflow, deadlock) "
                      "and hangs are all observable and shrinkable.",
        "level_note": "Limits (4 GiB, 64 KiB, 20 s/60 s, nesting cap) are part of the operational definition and are printed in the evidence; polynomial slowness is not reported.",
    },
    "C05": {
        "technique": _PBT + ": texts generated from values with drawn spellings (denotation known by construction), accept/reject oracle + reference encoder; native fuzzing of sml.Parse in the thorough tier",
        "level_text": "Generated texts over the documented literal grammar for all 14 item types with in-range, boundary, just-out-of-range and wrongly-typed literals; the parsed message must "
                      "hold exactly the denoted values (compared through direct construction and the reference encoding).",
        "level_note": "Trusted: the speller (smlgen_test.go) writes what it means; undocumented spellings are excluded rather than guessed.",
    },
    "C11": {
        "technique": "stateful " + _PBT + ": generated API-call histories over an object pool with in-place mutation of every argument / returned slice; snapshot invariant after every step",
        "level_text": "History exploration: the whole operation sequence is one shrinkable value; an aliasing bug shows up as a changed snapshot of an older pooled object.",
        "level_note": "Trusted: the snapshot covers every public observer; mutation through reflection/unsafe is out of scope.",
    },
    "C09": {
        "technique": "model-based " + _PBT + ": reference substitution model + metamorphic composition law (k partial fills == one fill with the union)",
        "level_text": "Generated templates, assignments and partitions; result compared with direct construction through the factories on four observers, refusal equivalence, composition law.",
        "level_note": "Trusted: substModel (template_test.go), the factories used for the directly constructed expectation (their own behaviour is C12's subject).",
    },
    "C10": {
        "technique": "model-based " + _PBT + " + exhaustive enumeration of all small templates x repeat-count assignments against a reference ellipsis expander",
        "level_text": "Reference-model differential: complete enumeration of small nested templates and count assignments (thorough) plus random deeper templates and multi-round fills; "
                      "each generated name is then filled individually.",
        "level_note": "Trusted: model.RefExpand (80 lines written from the ListNode documentation); a single remaining ellipsis may be called ... or ...[0].",
    },
    "C18": {
        "technique": _PBT + ": model-based testing of producer-call histories against an 8-field record model (frame condition checked after every step)",
        "level_text": "Generated histories of the three producers over generated messages; every observable of result and receiver is compared with the model after every step, "
                      "refusals must coincide with the model's validity rules.",
        "level_note": "Trusted: the record model in c18_test.go (about 60 lines), the reference encoder, factories used to build the expected item.",
    },
    "C16": {
        "technique": _PBT + ": relational oracle between Variables(), String() (read by an independent reader), ToBytes() and Size() on every node of generated trees",
        "level_text": "Exploration over generated templates (variables in any position, nested ellipses, post-expansion trees, messages); agreement of the observers is checked on every sub-item.",
        "level_note": "Trusted: model.ReadItem; variable names are generated so that they cannot be mistaken for keywords.",
    },
    "C12": {
        "technique": _PBT + ": boundary-directed argument generation for every factory / FillVariables, oracle from the exact mathematical value (math/big) via an independent reader of the printed form and the reference encoder",
        "level_text": "Exploration of the argument space of all factories and producers: every Go argument type at and around every range boundary of target and argument type, "
                      "malformed names, duplicates, ellipsis rules, message header ranges; accept-exactly-or-panic oracle.",
        "level_note": "Trusted: model.ReadItem (independent reader of the printed form), math/big; argument types a factory does not document are accepted either way but must be exact when stored.",
    },
    "C14": {
        "technique": "exhaustive enumeration of the control-message header space (generated cases, reference table oracle, decode round trip)",
        "level_text": "All (PType,SType) pairs, all session ids, all status codes and every kind of request argument are enumerated; reject.req triples exhaustively in the thorough tier. "
                      "System bytes and remaining header bytes are pseudo-random (seeded).",
        "level_note": "Trusted: the reference table in c14_test.go written from SEMI E37 / the property statement.",
    },
    "C13": {
        "technique": "exhaustive enumeration of the finite (format, size) space through a verif-tagged export + boundary items through the real factories/decoder, against a reference header",
        "level_text": "Thorough: complete sweep of all 14 formats x every size 0..16,777,215 (+64 beyond) of the header routine, and maximal / just-too-large real items for every format; "
                      "quick: all sizes <= 70000, neighbourhoods of every border and a stride. Enumeration is the limiting case of generation; exhaustive sub-spaces are flagged in the evidence.",
        "level_note": "Trusted: the 12-line reference header; the hook forwards to getHeaderBytes unchanged. Real items use one repeated element value (the size logic does not look at values).",
    },
    "C01": {
        "technique": _PBT + ": round-trip oracle hsms.Parse(m.ToBytes()) over generated complete messages built by 4 routes",
        "level_text": "Generated-input exploration: ~10^5 (quick) / ~3x10^6 (thorough) complete messages incl. 2- and 3-byte length fields, maximal items, all 14 formats; "
                      "a failing case is shrunk and stored as a replay file. No absence claim beyond the generated cases.",
        "level_note": "Trusted: Go toolchain, rapid; that printed item trees distinguish different trees (String() is the only item observer of a message).",
    },
    "C02": {
        "technique": _PBT + " + exhaustive enumeration of small value spaces: differential against an independent SEMI E5/E37 reference encoder",
        "level_text": "Differential exploration against a reference encoder written from the standard: random trees/messages plus exhaustive sweeps of all 1- and 2-byte values, "
                      "element counts 0..300 per format and (thorough) all 2^32 F4 bit patterns.",
        "level_note": "Trusted: the reference encoder in harness/model/encode.go (90 lines, no library import), Go's float32() conversion.",
    },
    "C03": {
        "technique": "fault enumeration over generated encodings (rapid) + native go fuzzing (thorough): differential against a strict reference decoder",
        "level_text": "For each generated valid message every single-point fault of a fixed catalogue (truncations, appended bytes, header/format/length byte alterations, "
                      "non-representable values) and non-minimal re-encodings are decoded by the library and by the reference decoder; verdict, fields and re-encoding must agree. "
                      "Inputs are presented both in exact-size buffers and as prefixes of larger buffers.",
        "level_note": "Trusted: reference decoder harness/model/decode.go implementing the accept set of the property; control messages with trailing text are tolerated either way.",
    },
}
