"""Per-property job tables for ./check (see DESIGN.md section 4).

jobs:   kind "rapid"  -> TestXxx driven by rapid with quick/thorough total case counts split over shards
        kind "enum"   -> TestXxx enumerating a finite sub-space, sharded by VERIF_SHARD/VERIF_NSHARDS
        kind "plain"  -> TestXxx run once (shards: 1)
floors: label -> (denominator label or "*", minimal fraction); a generated class the
        property names that falls below its floor makes the run inconclusive (exit 2).
"""

COMMON_ASSUMPTIONS = [
    "Go toolchain 1.23.5, its runtime, math/big and strconv are trusted",
    "pgregory.net/rapid v1.3.0 generates and shrinks cases; a run is a function of the tree and VERIF_SEED",
    "the reference model in /verif/harness/model (written from SEMI E5/E37 and the godoc, no import of the library) is the oracle",
    "absence of violations is only claimed for the cases generated/enumerated in this run",
]

PROPS = {
    "C01": {
        "level": "exploration",
        "jobs": [
            {"test": "TestC01", "kind": "rapid", "quick": 150000, "thorough": 3000000},
            {"test": "TestC01Big", "kind": "enum", "tier": "thorough", "shards": 10},
        ],
        "floors": {"lenbytes=2": ("job:TestC01", 0.01), "lenbytes=3": ("job:TestC01", 0.003),
                   "nonempty-binary": ("job:TestC01", 0.02), "route:sml-parser": ("job:TestC01", 0.05),
                   "route:hsms-decoder": ("job:TestC01", 0.05), "route:template+fill": ("job:TestC01", 0.1)},
        "rule": "rapid-generated complete data messages (header: 128x256 codes, wait bit, boundary+random session ids and system bytes; "
                "variable-free item trees over the 14 formats incl. payloads straddling the 1|2|3 length-byte borders and deep chains) built by four routes "
                "(constructors / template completed by the three producers in random order / SML parser / output of the HSMS decoder). Oracle: round trip "
                "hsms.Parse(m.ToBytes()) ok, header fields equal, printed item tree equal, re-encoding equal. Non-trivial: >= 1 element and (>= 2 formats or a "
                "2+-byte length field or depth >= 2); distinct = FNV-64 of the case.",
        "assumptions": COMMON_ASSUMPTIONS,
    },
    "C03": {
        "level": "fault_enumeration",
        "jobs": [
            {"test": "TestC03", "kind": "rapid", "quick": 3200, "thorough": 40000},
            {"test": "TestC03Unstructured", "kind": "rapid", "quick": 80000, "thorough": 1600000},
        ],
        "fuzz": [{"fuzz": "FuzzC03", "budget_s": 180}],
        "floors": {"ref:accept-noncanonical": ("job:TestC03", 0.001), "origin:truncate-patched": ("job:TestC03", 0.03),
                   "origin:length-byte": ("job:TestC03", 0.03), "origin:format-nlb": ("job:TestC03", 0.01),
                   "ref:reject:trailing-bytes-after-item": ("job:TestC03", 0.005)},
        "rule": "for each rapid-generated valid message (data and control): the canonical encoding, re-encodings with non-minimal length bytes and non-0/1 "
                "booleans, and EVERY single-point corruption of a fixed catalogue aimed with the reference encoder's layout map (each truncation point with/without "
                "patched outer length, appended bytes, each frame/header byte set to 0/1/7F/80/FF/+-1/bit flips, each format byte with every other format code and "
                "every length-byte count, each length byte +-1/0/FF, ASCII byte >= 0x80, non-finite floats); plus unstructured bytes and item soups. Oracle: same "
                "accept/reject decision as the strict reference decoder, equal header fields, and ToBytes() == canonical re-encoding of the reference-decoded message. "
                "Non-trivial: the outer length check passes and the input is not a canonical valid encoding; distinct = FNV-64 of the input bytes.",
        "notes": ["a control message carrying text after its header is outside the accept rule and contradicts the re-encoding rule of C03: both outcomes are tolerated (DESIGN 3.8)"],
        "assumptions": COMMON_ASSUMPTIONS,
    },
    "C02": {
        "level": "exploration",
        "jobs": [
            {"test": "TestC02", "kind": "rapid", "quick": 200000, "thorough": 2400000},
            {"test": "TestC02Enum", "kind": "enum"},
        ],
        "floors": {"item:lenbytes=2": ("job:TestC02", 0.004), "item:lenbytes=3": ("job:TestC02", 0.001),
                   "msg:incomplete:optional-wait": ("job:TestC02", 0.02), "msg:incomplete:variables": ("job:TestC02", 0.01),
                   "msg:incomplete:no-session": ("job:TestC02", 0.02)},
        "rule": "rapid-generated item trees over the 14 formats (boundary+uniform values, element counts straddling 255|256 and 65535|65536, "
                "deep chains) and complete/incomplete messages, built through the public factories with varying Go argument types; plus enumerations "
                "(every I1/U1/B/I2/U2 value singly and all in one item, every element count 0..300 per format, boundary bit patterns of the wide formats, "
                "F4 bit patterns). Oracle: ToBytes() byte-for-byte equal to the independent SEMI E5/E37 reference encoder; incomplete message/item => empty. "
                "Non-trivial: the item has >= 1 element, or the message is incomplete for a stated reason; distinct = 64-bit FNV hash of the case.",
        "exhaustive_note": {
            "quick": "exhaustive: all values of I1, U1, B, I2, U2; element counts 0..300 x 12 array formats. F4: stratified 2^20-ish sample",
            "thorough": "exhaustive: all values of I1, U1, B, I2, U2; element counts 0..300 x 12 array formats; all 2^32 F4 bit patterns",
        },
        "assumptions": COMMON_ASSUMPTIONS,
    },
}

HOOK_COMMITS = []
NOT_APPLICABLE = {}

_PBT = "property-based testing (pgregory.net/rapid generators + shrinking)"
MANIFEST_TEXT = {
    "C01": {
        "technique": _PBT + ": round-trip oracle hsms.Parse(m.ToBytes()) over generated complete messages built by 4 routes",
        "level_text": "Generated-input exploration: ~10^5 (quick) / ~3x10^6 (thorough) complete messages incl. 2- and 3-byte length fields, maximal items, all 14 formats; "
                      "a failing case is shrunk and stored as a replay file. No absence claim beyond the generated cases.",
        "level_note": "Trusted: Go toolchain, rapid; that printed item trees distinguish different trees (String() is the only item observer of a message).",
    },
    "C02": {
        "technique": _PBT + " + exhaustive enumeration of small value spaces: differential against an independent SEMI E5/E37 reference encoder",
        "level_text": "Differential exploration against a reference encoder written from the standard: random trees/messages plus exhaustive sweeps of all 1- and 2-byte values, "
                      "element counts 0..300 per format and (thorough) all 2^32 F4 bit patterns.",
        "level_note": "Trusted: the reference encoder in harness/model/encode.go (90 lines, no library import), Go's float32() conversion.",
    },
    "C03": {
        "technique": "fault enumeration over generated encodings (rapid) + native go fuzzing (thorough): differential against a strict reference decoder",
        "level_text": "For each generated valid message every single-point fault of a fixed catalogue (truncations, appended bytes, header/format/length byte alterations, "
                      "non-representable values) and non-minimal re-encodings are decoded by the library and by the reference decoder; verdict, fields and re-encoding must agree. "
                      "Inputs are presented both in exact-size buffers and as prefixes of larger buffers.",
        "level_note": "Trusted: reference decoder harness/model/decode.go implementing the accept set of the property; control messages with trailing text are tolerated either way.",
    },
}
