#!/usr/bin/env python3
"""Apply a change to /repo's working tree, run checks against it, and restore /repo.

usage: mutate.py revert <commit> <ID> [<ID>...]     (reverse-apply a fix commit)
       mutate.py patch <file.diff> <ID> [<ID>...]   (apply a seeded change)
       options: --tier quick|thorough  --seed N
Prints one line per check: <ID> rc=<rc> <first VIOLATION / KNOWN / INCONCLUSIVE line>.
"""
import subprocess, sys, os, time
ROOT = os.path.dirname(os.path.dirname(os.path.abspath(__file__)))

def sh(cmd, **kw):
    return subprocess.run(cmd, shell=True, text=True, stdout=subprocess.PIPE, stderr=subprocess.STDOUT, **kw)

def main():
    args = sys.argv[1:]
    tier, seed = "quick", "1"
    while "--tier" in args:
        i = args.index("--tier"); tier = args[i+1]; del args[i:i+2]
    while "--seed" in args:
        i = args.index("--seed"); seed = args[i+1]; del args[i:i+2]
    nocorpus = "--no-corpus" in args
    if nocorpus:
        args.remove("--no-corpus")
    mode, what, ids = args[0], args[1], args[2:]
    st = sh("git -C /repo status --porcelain --untracked-files=no")
    if st.stdout.strip():
        print("refusing: /repo has uncommitted changes:\n" + st.stdout); return 2
    try:
        if mode == "revert":
            r = sh(f"git -C /repo show {what} -- pkg | git -C /repo apply -R")
        else:
            r = sh(f"git -C /repo apply {os.path.abspath(what)}")
            if r.returncode != 0:
                # the patch was made against an earlier commit of /repo: try a three-way merge, keep the index clean
                r = sh(f"git -C /repo apply -3 {os.path.abspath(what)} && git -C /repo reset -q")
        if r.returncode != 0:
            print("cannot apply:", r.stdout); return 2
        b = sh("cd /repo && go build ./... && go test -vet=off -count=1 ./... 2>&1 | tail -4")
        suite_ok = "FAIL" not in b.stdout and b.returncode == 0
        print(f"[mutate] {mode} {what}: existing suite {'passes' if suite_ok else 'FAILS'}")
        if not suite_ok:
            print(b.stdout[-1500:])
        for pid in ids:
            t0 = time.time()
            env = dict(os.environ); env["VERIF_SEED"] = seed
            if nocorpus:
                env["VERIF_NO_CORPUS"] = "1"
            p = subprocess.run([os.path.join(ROOT, "check"), pid, tier], cwd=ROOT, env=env, text=True, stdout=subprocess.PIPE, stderr=subprocess.STDOUT)
            lines = [l for l in p.stdout.splitlines() if l.startswith(("VIOLATION", "INCONCLUSIVE", "BUILD-FAILED", "DRIVER-ERROR"))]
            detail = ""
            for i, l in enumerate(p.stdout.splitlines()):
                if l.startswith("--- violation found by"):
                    detail = " | ".join(x.strip() for x in p.stdout.splitlines()[i:i+3])[:400]
                    break
            print(f"{pid} rc={p.returncode} {time.time()-t0:.0f}s {lines[0] if lines else ''} {detail}")
    finally:
        sh("git -C /repo reset -q; git -C /repo checkout -- .")
        left = sh("git -C /repo status --porcelain --untracked-files=no").stdout.strip()
        if left:
            print("WARNING: /repo not clean after restore:", left)
    return 0

sys.exit(main())
