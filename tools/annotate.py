#!/usr/bin/env python3
"""Record in a seeded change's meta.json which check reports it.
   usage: annotate.py <ID-wave> <caught_by text> [<before_strengthening text>]"""
import json, subprocess, sys
d = "/verif/seeded/" + sys.argv[1]
m = json.load(open(d + "/meta.json"))
m["confirmed_by"] = "tools/confirm_seed.py in a fresh scratch worktree of /repo: demo passes on the unchanged tree; with the patch the library builds, the 62 existing tests pass and the demo fails"
m["caught_by"] = sys.argv[2]
if len(sys.argv) > 3:
    m["before_strengthening"] = sys.argv[3]
m["checked_with"] = "python3 tools/mutate.py --no-corpus patch seeded/%s/patch.diff <ID>  (quick tier, generated tiers only)" % sys.argv[1]
m["base_commit"] = subprocess.run("git -C /repo rev-parse --short HEAD", shell=True, text=True, stdout=subprocess.PIPE).stdout.strip()
json.dump(m, open(d + "/meta.json", "w"), indent=1, ensure_ascii=False)
