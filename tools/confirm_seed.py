#!/usr/bin/env python3
"""Confirm a seeded change in a fresh scratch worktree of /repo:
   (1) demo passes on the unchanged tree, (2) with the patch the library builds and the existing suite passes,
   (3) with the patch the demo fails.  usage: confirm_seed.py <dir with patch.diff, demo_test.go, meta.json>"""
import json, os, shutil, subprocess, sys, tempfile
d = os.path.abspath(sys.argv[1])
meta = json.load(open(os.path.join(d, "meta.json")))
wt = tempfile.mkdtemp(prefix="confirm-", dir="/tmp")
os.rmdir(wt)
env = dict(os.environ, GOFLAGS="-mod=mod", GOPROXY="off", GOSUMDB="off", GOTOOLCHAIN="local")
def sh(cmd, cwd=wt, timeout=900):
    try:
        p = subprocess.run(cmd, shell=True, cwd=cwd, env=env, text=True, stdout=subprocess.PIPE, stderr=subprocess.STDOUT, timeout=timeout)
        return p.returncode, p.stdout
    except subprocess.TimeoutExpired as e:
        return 124, (e.stdout or "") + "\nTIMEOUT"
res = {}
try:
    rc, out = sh(f"git -C /repo worktree add -q --detach {wt} HEAD", cwd="/")
    assert rc == 0, out
    pkgdir = meta["demo_package_dir"].strip("/")
    demo_dst = os.path.join(wt, pkgdir, "zz_seed_demo_test.go")
    run = f"go test -vet=off -count=1 -timeout 300s ./{pkgdir}/"
    if "-race" in meta.get("demo_run", ""):
        run = f"go test -race -vet=off -count=1 -timeout 300s ./{pkgdir}/"
    shutil.copy(os.path.join(d, "demo_test.go"), demo_dst)
    rc, out = sh(run)
    res["demo_on_unchanged"] = "pass" if rc == 0 else "FAIL"
    if rc != 0: res["demo_on_unchanged_output"] = out[-800:]
    os.remove(demo_dst)
    rc, out = sh(f"git apply {os.path.join(d, 'patch.diff')}")
    res["patch_applies"] = rc == 0
    rc, out = sh("go build ./... && go test -vet=off -count=1 ./pkg/...")
    res["suite_with_patch"] = "pass" if rc == 0 else "FAIL"
    if rc != 0: res["suite_output"] = out[-800:]
    shutil.copy(os.path.join(d, "demo_test.go"), demo_dst)
    rc, out = sh(run, timeout=600)
    res["demo_with_patch"] = "fail (as required)" if rc != 0 else "PASSES (demo does not show the defect)"
    res["demo_with_patch_tail"] = out[-400:]
finally:
    subprocess.run(f"git -C /repo worktree remove --force {wt}", shell=True, stdout=subprocess.DEVNULL, stderr=subprocess.DEVNULL)
    shutil.rmtree(wt, ignore_errors=True)
ok = res.get("demo_on_unchanged") == "pass" and res.get("suite_with_patch") == "pass" and res.get("demo_with_patch", "").startswith("fail")
res["confirmed"] = ok
print(json.dumps(res, indent=1))
sys.exit(0 if ok else 1)
