#!/bin/sh
# Regression sweep over the seeded changes of the later waves (g i j k l m n o p): quick tier (generated tiers only) of the
# change's own property; the ones listed in their meta.json as reported by a neighbour show rc=0 here.
cd /verif
for w in g i j k l m n o p; do
  for d in seeded/*-$w/; do
    n=$(basename $d); id=${n%%-*}
    python3 tools/mutate.py --no-corpus patch $d/patch.diff $id 2>&1 | cut -c1-300
  done
done
