#!/bin/sh
# Sensitivity: revert every fix commit in turn and run the generated tiers (no corpus) of the properties it concerns.
cd /verif
M="python3 tools/mutate.py --no-corpus"
$M revert dada8fc C01 C03 C13
$M revert 0459a60 C01 C03
$M revert c64021b C03
$M revert 4ad26ef C03 C07
$M revert c77d306 C07
$M revert 87e7749 C12
$M revert 21e8b6e C12
$M revert 2e1cc49 C12
$M revert 4fa5eae C04 C12
$M revert 414807c C11
$M revert 140740a C05 C04
$M revert 052f8af C05
$M revert 8e0433a C06
$M revert 30b7e8e C06
$M revert 5b363f8 C08
$M revert 4d6eeda C07
$M revert 22650e6 C08
$M revert 5e071a8 C07
