#!/bin/sh
# Run the quick tier (generated tiers only) of the target property against every seeded change.
cd /verif
for d in seeded/*/; do
  n=$(basename $d); id=${n%%-*}
  extra=""
  case $id in C13) extra="C02";; C01) extra="C02";; C14) extra="";; esac
  python3 tools/mutate.py --no-corpus patch $d/patch.diff $id $extra 2>&1 | cut -c1-420
done
