#!/usr/bin/env python3
"""Regenerates /verif/MANIFEST.json from checkdefs.py (single source of truth)."""
import json, os, sys
ROOT = os.path.dirname(os.path.dirname(os.path.abspath(__file__)))
sys.path.insert(0, ROOT)
from checkdefs import PROPS, MANIFEST_TEXT, NOT_APPLICABLE, HOOK_COMMITS

ids = [json.loads(l)["id"] for l in open(os.path.join(ROOT, "properties.jsonl"))]
checks = []
for pid in ids:
    if pid not in PROPS:
        continue
    P = PROPS[pid]
    T = MANIFEST_TEXT[pid]
    checks.append({
        "property_id": pid,
        "quick_cmd": f"./check {pid} quick",
        "thorough_cmd": f"./check {pid} thorough",
        "evidence_file": f"/verif/evidence/{pid}.json",
        "replay_cmd_template": f"./check {pid} --replay {{path}}",
        "engine": "props",
        "level_claimed": {"category": P["level"], "text": T["level_text"], "design_ref": f"DESIGN.md section 4, {pid}"},
        "level_note": T["level_note"],
        "technique": T["technique"],
    })
na = [{"property_id": i, "reason": NOT_APPLICABLE.get(i, "check not built yet (work in progress; will be claimed)")} for i in ids if i not in PROPS]
m = {
    "version": 1,
    "setup_cmd": "cd /verif/harness && GOFLAGS=-mod=mod GOPROXY=off GOSUMDB=off GOTOOLCHAIN=local go test -c -tags verif -o /verif/.build/props.test ./props && GOFLAGS=-mod=mod GOPROXY=off GOSUMDB=off GOTOOLCHAIN=local go test -c -race -tags verif -o /verif/.build/props.race.test ./props",
    "hooks": {"guard": "verif", "enable": "go build tag: go test -tags verif (the harness module replaces the library by /repo)",
              "baseline_off_cmd": "cd /repo && go test -vet=off -count=1 ./...", "source_commits": HOOK_COMMITS, "add_only": True},
    "engines": [{"name": "props", "path": "/verif/harness", "serves_properties": [c["property_id"] for c in checks],
                 "kind_free_text": "Go test binary (pgregory.net/rapid v1.3.0 property-based tests, enumerations, native go fuzz targets, isolated worker processes) driven by /verif/check; reference model in harness/model"}],
    "checks": checks,
    "notes": "Every check: ./check <ID> quick|thorough [--replay file]; exit 0 held / 1 VIOLATION line / 2 infrastructure or inconclusive. Known findings: /verif/KNOWN_FINDINGS.txt.",
    "not_applicable": na,
}
json.dump(m, open(os.path.join(ROOT, "MANIFEST.json"), "w"), indent=1)
print(f"{len(checks)} checks, {len(na)} not claimed")
