#!/usr/bin/env python3
"""Prepare one wave of seeding sub-agents: a scratch worktree of /repo and a prompt file per property under /tmp/wt.
   Each prompt holds only the property text, the worktree path and one-paragraph summaries of the earlier seeded
   changes for that property (so that the next one differs) - nothing else from /verif.
   usage: mkprompts.py <wave letter, e.g. g>   (earlier waves are read from /verif/seeded/<ID>-<a..>)"""
import json, os, re, subprocess, sys
wave = sys.argv[1]
here = os.path.dirname(os.path.abspath(__file__))
tmpl = open(os.path.join(here, "prompts/seed_prompt_template.txt")).read()
hint = open(os.path.join(here, "prompts/hint_%s.txt" % wave)).read().strip() if os.path.exists(os.path.join(here, "prompts/hint_%s.txt" % wave)) else open(os.path.join(here, "prompts/hint_default.txt")).read().strip()
os.makedirs("/tmp/wt", exist_ok=True)
for i in range(1, 20):
    pid = "C%02d" % i
    prop = open(os.path.join(here, "prompts/prop_%s.txt" % pid)).read().strip()
    prev = []
    for w in "abcdefghijklmnopqrstuvwxyz":
        if w == wave:
            break
        mp = "/verif/seeded/%s-%s/meta.json" % (pid, w)
        if os.path.exists(mp):
            prev.append(re.sub(r"\s+", " ", json.load(open(mp)).get("summary", ""))[:300])
    known = "\n\nALREADY KNOWN, NOT WANTED AGAIN - earlier seeded changes for this property were:\n" + "\n".join("  (%d) %s" % (k + 1, s) for k, s in enumerate(prev)) + "\n" + hint
    wt = "/tmp/wt/%s%s" % (pid, wave)
    t = tmpl.replace("WORKTREE", wt).replace("PROPERTY", prop + "\n" + known)
    t = t.replace("The existing suite has 62 tests and passes.", "The existing suite has 62 tests and passes. Run the existing suite as `go test -vet=off -count=1 ./pkg/...` (not ./...) so that your SEED directory is not picked up. Do NOT use `git stash` (the stash is shared between worktrees): to switch between changed and unchanged code use `git diff -- pkg > %s/SEED/patch.diff; git checkout -- pkg` and `git apply SEED/patch.diff`." % wt)
    t = t.replace("(use `git stash` / `git diff` / `git checkout` inside your worktree", "(use `git diff` / `git checkout` / `git apply` inside your worktree, never `git stash`,")
    open("/tmp/wt/prompt_%s%s.txt" % (pid, wave), "w").write(t)
    subprocess.run(["git", "-C", "/repo", "worktree", "add", "--detach", "-q", wt, "HEAD"], check=True)
    os.makedirs(wt + "/SEED", exist_ok=True)
print("prompts and worktrees for wave", wave, "are under /tmp/wt")
