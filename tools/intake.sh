#!/bin/sh
# Intake of one delivered seeded change: confirm it in a fresh scratch worktree, file it under /verif/seeded/<ID>-<wave>,
# remove the sub-agent's worktree, then run the quick tier (generated tiers only) of the given checks against it.
# usage: intake.sh <ID> <wave letter> [<other ID> ...]
id=$1; w=$2; shift 2
src=/tmp/wt/$id$w/SEED; dst=/verif/seeded/$id-$w
if [ -d "$src" ]; then
  python3 /verif/tools/confirm_seed.py $src > /tmp/wt/confirm_$id$w.json; rc=$?
  grep -E '"confirmed"|FAIL|PASSES' /tmp/wt/confirm_$id$w.json
  [ $rc -ne 0 ] && { echo "NOT CONFIRMED $id$w"; cat /tmp/wt/confirm_$id$w.json; exit 1; }
  mkdir -p $dst && cp $src/patch.diff $src/demo_test.go $src/meta.json $dst/; cp $src/patch_A.diff $src/patch_B.diff $dst/ 2>/dev/null
  git -C /repo worktree remove --force /tmp/wt/$id$w; rm -rf /tmp/wt/$id$w
fi
python3 /verif/tools/mutate.py --no-corpus patch $dst/patch.diff $id "$@" 2>&1 | cut -c1-600
