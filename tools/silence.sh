#!/bin/sh
# Silence check: every quick check on the unchanged tree at several VERIF_SEED values; prints only non-silent results.
cd /verif
for seed in "$@"; do
  for p in C01 C02 C03 C04 C05 C06 C07 C08 C09 C10 C11 C12 C13 C14 C15 C16 C17 C18 C19; do
    out=$(VERIF_SEED=$seed ./check $p quick 2>&1); rc=$?
    echo "seed=$seed $p rc=$rc $(echo "$out" | grep -E '^\[check\] C' | sed 's/.*quick: //' | cut -c1-90)"
    if [ $rc -ne 0 ]; then echo "$out" | grep -vE "^\s+\S+_test.go:[0-9]+: \[rapid\] draw" | head -30; fi
  done
done
