#!/bin/sh
# kill background check sweeps (loop shells, drivers, test binaries) without matching the caller's own shell
me=$$
for pid in $(pgrep -x sh) $(pgrep -x bash) $(pgrep -x python3) $(pgrep -x time); do
  [ "$pid" = "$me" ] && continue
  [ "$pid" = "$PPID" ] && continue
  c=$(tr '\0' ' ' < /proc/$pid/cmdline 2>/dev/null)
  case "$c" in
    *"./check C"*|*"thorough wall"*|*"tools/silence.sh"*|*"tools/sens_"*) kill $pid 2>/dev/null;;
  esac
done
sleep 1
pkill -x props.test
pkill -x props.race.test
sleep 1
pgrep -x props.test | wc -l
