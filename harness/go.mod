module verifharness

go 1.23

require (
	github.com/wolimst/lib-secs2-hsms-go v0.0.0
	pgregory.net/rapid v1.3.0
)

replace github.com/wolimst/lib-secs2-hsms-go => /repo
