package model

import (
	"errors"
	"math"
)

// Span describes the role of a byte range in an encoding (used to aim faults).
type Span struct {
	Off  int    `json:"off"`
	Len  int    `json:"len"`
	Role string `json:"role"` // "msglen","header","format","length","payload"
	Kind string `json:"kind,omitempty"`
	Node int    `json:"node"` // preorder index of the item, -1 for message level
}

// EncOpts controls non-canonical encodings. NLB[i] (1..3) requests that many
// length bytes for the i-th node in preorder if the length fits; anything else
// means minimal. TrueByte[i%len] is the byte used for "true" booleans (default 1).
type EncOpts struct {
	NLB      []int
	TrueByte []byte
}

type encoder struct {
	buf    []byte
	spans  []Span
	opts   *EncOpts
	idx    int
	boolIx int
}

// ErrVariables is returned when a node still has variables.
var ErrVariables = errors.New("model: node has variables")

// ErrTooLong is returned when a length exceeds three bytes.
var ErrTooLong = errors.New("model: length exceeds 3 bytes")

// MinLengthBytes is the number of bytes of the shortest big-endian encoding of n.
func MinLengthBytes(n int) int {
	switch {
	case n <= 0xFF:
		return 1
	case n <= 0xFFFF:
		return 2
	default:
		return 3
	}
}

// RefEncodeItem encodes a variable-free item per SEMI E5 section 9.
func RefEncodeItem(n *Node, opts *EncOpts) ([]byte, []Span, error) {
	e := &encoder{opts: opts}
	if err := e.item(n); err != nil {
		return nil, nil, err
	}
	return e.buf, e.spans, nil
}

func (e *encoder) header(kind string, length int) error {
	if length > MaxLen {
		return ErrTooLong
	}
	nlb := MinLengthBytes(length)
	if e.opts != nil && e.idx < len(e.opts.NLB) {
		if w := e.opts.NLB[e.idx]; w >= nlb && w <= 3 {
			nlb = w
		}
	}
	e.spans = append(e.spans, Span{Off: len(e.buf), Len: 1, Role: "format", Kind: kind, Node: e.idx})
	e.buf = append(e.buf, byte(FormatCode(kind)<<2|nlb))
	e.spans = append(e.spans, Span{Off: len(e.buf), Len: nlb, Role: "length", Kind: kind, Node: e.idx})
	for i := nlb - 1; i >= 0; i-- {
		e.buf = append(e.buf, byte(length>>(8*uint(i))))
	}
	return nil
}

func (e *encoder) item(n *Node) error {
	if n.Bulk != nil {
		n = n.Expanded()
	}
	myIdx := e.idx
	switch n.Kind {
	case L:
		for _, c := range n.Children {
			if c.Node == nil {
				return ErrVariables
			}
		}
		if err := e.header(L, len(n.Children)); err != nil {
			return err
		}
		e.idx++
		for _, c := range n.Children {
			if err := e.item(c.Node); err != nil {
				return err
			}
		}
		return nil
	case A:
		if n.AVar != nil {
			return ErrVariables
		}
		if err := e.header(A, len(n.Str)); err != nil {
			return err
		}
		e.idx++
		if len(n.Str) > 0 {
			e.spans = append(e.spans, Span{Off: len(e.buf), Len: len(n.Str), Role: "payload", Kind: A, Node: myIdx})
		}
		e.buf = append(e.buf, n.Str...)
		return nil
	}
	for _, el := range n.Elems {
		if el.Var != "" {
			return ErrVariables
		}
	}
	w := Width(n.Kind)
	if err := e.header(n.Kind, len(n.Elems)*w); err != nil {
		return err
	}
	e.idx++
	if len(n.Elems) > 0 {
		e.spans = append(e.spans, Span{Off: len(e.buf), Len: len(n.Elems) * w, Role: "payload", Kind: n.Kind, Node: myIdx})
	}
	for _, el := range n.Elems {
		var bits uint64
		switch {
		case n.Kind == BOOLEAN:
			if el.T {
				bits = 1
				if e.opts != nil && len(e.opts.TrueByte) > 0 {
					bits = uint64(e.opts.TrueByte[e.boolIx%len(e.opts.TrueByte)])
					e.boolIx++
					if bits == 0 {
						bits = 1
					}
				}
			}
		case IsSigned(n.Kind):
			bits = uint64(el.I) // two's complement, truncated below
		case n.Kind == F4:
			bits = uint64(math.Float32bits(float32(math.Float64frombits(el.F))))
		case n.Kind == F8:
			bits = el.F
		default:
			bits = el.U
		}
		for i := w - 1; i >= 0; i-- {
			e.buf = append(e.buf, byte(bits>>(8*uint(i))))
		}
	}
	return nil
}

// Msg is the model of an HSMS message (data or control).
type Msg struct {
	Control  bool    `json:"control,omitempty"`
	Header   []byte  `json:"header,omitempty"` // control: the 10 header bytes
	Session  int     `json:"session"`
	Stream   int     `json:"stream"`
	Function int     `json:"function"`
	Wait     bool    `json:"wait"`
	System   [4]byte `json:"system"`
	Item     *Node   `json:"item,omitempty"` // nil: empty message text
}

// RefEncodeMsg frames a message per SEMI E37: 4-byte length, 10-byte header, text.
func RefEncodeMsg(m *Msg, opts *EncOpts) ([]byte, []Span, error) {
	var text []byte
	var spans []Span
	if !m.Control && m.Item != nil {
		var err error
		text, spans, err = RefEncodeItem(m.Item, opts)
		if err != nil {
			return nil, nil, err
		}
	}
	hdr := make([]byte, 10)
	if m.Control {
		copy(hdr, m.Header)
	} else {
		hdr[0] = byte(m.Session >> 8)
		hdr[1] = byte(m.Session)
		hdr[2] = byte(m.Stream & 0x7F)
		if m.Wait {
			hdr[2] |= 0x80
		}
		hdr[3] = byte(m.Function)
		hdr[4] = 0
		hdr[5] = 0
		copy(hdr[6:], m.System[:])
	}
	total := 10 + len(text)
	out := make([]byte, 0, 4+total)
	out = append(out, byte(total>>24), byte(total>>16), byte(total>>8), byte(total))
	out = append(out, hdr...)
	out = append(out, text...)
	all := []Span{{Off: 0, Len: 4, Role: "msglen", Node: -1}, {Off: 4, Len: 10, Role: "header", Node: -1}}
	for _, s := range spans {
		s.Off += 14
		all = append(all, s)
	}
	return out, all, nil
}
