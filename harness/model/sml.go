package model

import (
	"fmt"
	"math"
	"strconv"
	"strings"
)

// Tok is one SML token as written by the harness' own SML writer.
type Tok struct {
	Text string `json:"t"`
	Kind string `json:"k"` // sf wait dir name lt gt type size num bool var str ellipsis end
}

// SMLHeader is the model of the textual message header.
type SMLHeader struct {
	Name     string
	Stream   int
	Function int
	Wait     int // 0 false, 1 true, 2 optional
	Dir      string
}

// Speller chooses the spelling of literals and keywords.
type Speller interface {
	StreamFunction(s, f int) string
	WaitBit(optional bool) string
	Direction(d string) string
	TypeName(kind string) string
	Int(kind string, v int64) string
	Uint(kind string, v uint64) string // also B
	Float(kind string, v float64) string
	Bool(v bool) string
	ASCII(s string) []Tok         // tokens denoting the characters of s (s non-empty)
	AVarSize(min, max int) string // "" for none
	ListSize(n int, determined bool) string
	ArraySize(kind string, n int) string
}

// Canonical is a plain speller: decimal numbers, upper-case keywords, no sizes
// except ASCII-variable bounds.
type Canonical struct{}

func (Canonical) StreamFunction(s, f int) string { return fmt.Sprintf("S%dF%d", s, f) }
func (Canonical) WaitBit(optional bool) string {
	if optional {
		return "[W]"
	}
	return "W"
}
func (Canonical) Direction(d string) string         { return d }
func (Canonical) TypeName(kind string) string       { return kind }
func (Canonical) Int(kind string, v int64) string   { return strconv.FormatInt(v, 10) }
func (Canonical) Uint(kind string, v uint64) string { return strconv.FormatUint(v, 10) }
func (Canonical) Float(kind string, v float64) string {
	if kind == F4 {
		return ShortestFloat(float64(float32(v)), 32)
	}
	return ShortestFloat(v, 64)
}
func (Canonical) Bool(v bool) string {
	if v {
		return "T"
	}
	return "F"
}

// ShortestFloat prints the shortest decimal that reads back to v at the width.
func ShortestFloat(v float64, bits int) string {
	s := strconv.FormatFloat(v, 'g', -1, bits)
	return s
}

// ASCII writes printable runs (without quote and backslash) in quotes and
// everything else as 0xNN codes.
func (Canonical) ASCII(s string) []Tok {
	var out []Tok
	run := []byte{}
	flush := func() {
		if len(run) > 0 {
			out = append(out, Tok{Text: `"` + string(run) + `"`, Kind: "str"})
			run = run[:0]
		}
	}
	for i := 0; i < len(s); i++ {
		c := s[i]
		if c >= 32 && c < 127 && c != '"' && c != '\\' {
			run = append(run, c)
		} else {
			flush()
			out = append(out, Tok{Text: fmt.Sprintf("0x%02X", c), Kind: "num"})
		}
	}
	flush()
	return out
}

func (Canonical) AVarSize(min, max int) string {
	switch {
	case min == 0 && max == -1:
		return ""
	case min == max:
		return fmt.Sprintf("[%d]", min)
	case max == -1:
		return fmt.Sprintf("[%d..]", min)
	default:
		return fmt.Sprintf("[%d..%d]", min, max)
	}
}
func (Canonical) ListSize(n int, determined bool) string { return "" }
func (Canonical) ArraySize(kind string, n int) string    { return "" }

// ItemTokens writes the tokens of an item.
func ItemTokens(n *Node, sp Speller) []Tok {
	var out []Tok
	itemTokens(n, sp, &out)
	return out
}

func itemTokens(n *Node, sp Speller, out *[]Tok) {
	if n.Bulk != nil {
		n = n.Expanded()
	}
	*out = append(*out, Tok{"<", "lt"}, Tok{sp.TypeName(n.Kind), "type"})
	switch n.Kind {
	case L:
		determined := true
		for _, c := range n.Children {
			if c.Node == nil {
				determined = false
			}
		}
		if s := sp.ListSize(len(n.Children), determined); s != "" {
			*out = append(*out, Tok{s, "size"})
		}
		for _, c := range n.Children {
			switch {
			case c.Node != nil:
				itemTokens(c.Node, sp, out)
			case IsEllipsisName(c.Var):
				*out = append(*out, Tok{c.Var, "ellipsis"})
			default:
				*out = append(*out, Tok{c.Var, "var"})
			}
		}
	case A:
		if n.AVar != nil {
			if s := sp.AVarSize(n.AVar.Min, n.AVar.Max); s != "" {
				*out = append(*out, Tok{s, "size"})
			}
			*out = append(*out, Tok{n.AVar.Name, "var"})
		} else {
			if s := sp.ArraySize(A, len(n.Str)); s != "" {
				*out = append(*out, Tok{s, "size"})
			}
			if n.Str != "" {
				*out = append(*out, sp.ASCII(n.Str)...)
			}
		}
	default:
		if s := sp.ArraySize(n.Kind, len(n.Elems)); s != "" {
			*out = append(*out, Tok{s, "size"})
		}
		for _, e := range n.Elems {
			switch {
			case e.Var != "":
				*out = append(*out, Tok{e.Var, "var"})
			case n.Kind == BOOLEAN:
				*out = append(*out, Tok{sp.Bool(e.T), "bool"})
			case IsSigned(n.Kind):
				*out = append(*out, Tok{sp.Int(n.Kind, e.I), "num"})
			case IsFloat(n.Kind):
				*out = append(*out, Tok{sp.Float(n.Kind, math.Float64frombits(e.F)), "num"})
			default:
				*out = append(*out, Tok{sp.Uint(n.Kind, e.U), "num"})
			}
		}
	}
	*out = append(*out, Tok{">", "gt"})
}

// MessageTokens writes the tokens of one message (item may be nil).
func MessageTokens(h SMLHeader, item *Node, sp Speller) []Tok {
	out := []Tok{{sp.StreamFunction(h.Stream, h.Function), "sf"}}
	switch h.Wait {
	case 1:
		out = append(out, Tok{sp.WaitBit(false), "wait"})
	case 2:
		out = append(out, Tok{sp.WaitBit(true), "wait"})
	}
	if h.Dir != "" {
		out = append(out, Tok{sp.Direction(h.Dir), "dir"})
	}
	if h.Name != "" {
		out = append(out, Tok{h.Name, "name"})
	}
	if item != nil {
		itemTokens(item, sp, &out)
	}
	out = append(out, Tok{".", "end"})
	return out
}

// RenderPlain joins tokens with single spaces; the header gets its own line.
func RenderPlain(toks []Tok) string {
	var sb strings.Builder
	for i, t := range toks {
		if i > 0 {
			if t.Kind == "end" || (t.Kind == "lt" && headerKind(toks[i-1].Kind)) {
				sb.WriteByte('\n')
			} else {
				sb.WriteByte(' ')
			}
		}
		sb.WriteString(t.Text)
	}
	sb.WriteByte('\n')
	return sb.String()
}

func headerKind(k string) bool {
	return k == "sf" || k == "wait" || k == "dir" || k == "name"
}
