// Package model is the reference model of SECS-II items and HSMS messages used
// by the verification harness. It deliberately does NOT import the library
// under test: everything here is written from SEMI E5 / E37 and from the
// library's documentation, so that it can serve as an independent oracle.
package model

import (
	"fmt"
	"math"
	"strings"
)

// Kinds of items (the 14 SECS-II formats supported by the library).
const (
	L       = "L"
	A       = "A"
	B       = "B"
	BOOLEAN = "BOOLEAN"
	I1      = "I1"
	I2      = "I2"
	I4      = "I4"
	I8      = "I8"
	U1      = "U1"
	U2      = "U2"
	U4      = "U4"
	U8      = "U8"
	F4      = "F4"
	F8      = "F8"
)

// AllKinds lists the 14 formats in a fixed order.
var AllKinds = []string{L, A, B, BOOLEAN, I1, I2, I4, I8, U1, U2, U4, U8, F4, F8}

// ArrayKinds are the kinds whose elements are scalar values.
var ArrayKinds = []string{B, BOOLEAN, I1, I2, I4, I8, U1, U2, U4, U8, F4, F8}

// FormatCode is the SEMI E5 format code (6 bits) of a kind.
func FormatCode(kind string) int {
	switch kind {
	case L:
		return 0o00
	case B:
		return 0o10
	case BOOLEAN:
		return 0o11
	case A:
		return 0o20
	case I8:
		return 0o30
	case I1:
		return 0o31
	case I2:
		return 0o32
	case I4:
		return 0o34
	case F8:
		return 0o40
	case F4:
		return 0o44
	case U8:
		return 0o50
	case U1:
		return 0o51
	case U2:
		return 0o52
	case U4:
		return 0o54
	}
	panic("model: unknown kind " + kind)
}

// KindOfFormatCode is the inverse of FormatCode ("" when undefined).
func KindOfFormatCode(code int) string {
	for _, k := range AllKinds {
		if FormatCode(k) == code {
			return k
		}
	}
	return ""
}

// Width is the number of payload bytes per element (1 for L: the length field
// of a list counts elements).
func Width(kind string) int {
	switch kind {
	case L, A, B, BOOLEAN, I1, U1:
		return 1
	case I2, U2:
		return 2
	case I4, U4, F4:
		return 4
	case I8, U8, F8:
		return 8
	}
	panic("model: unknown kind " + kind)
}

// MaxLen is the largest value a 3-byte length field can hold.
const MaxLen = 1<<24 - 1

// IsSigned, IsUnsigned, IsFloat classify numeric kinds.
func IsSigned(kind string) bool   { return kind == I1 || kind == I2 || kind == I4 || kind == I8 }
func IsUnsigned(kind string) bool { return kind == U1 || kind == U2 || kind == U4 || kind == U8 }
func IsFloat(kind string) bool    { return kind == F4 || kind == F8 }

// Elem is one element of an array item: a variable or a value. Which value
// field is meaningful depends on the kind of the owning node:
// I* -> I, U* and B -> U, F* -> F (IEEE-754 bits of the float64 value), BOOLEAN -> T.
type Elem struct {
	Var string `json:"var,omitempty"`
	I   int64  `json:"i,omitempty"`
	U   uint64 `json:"u,omitempty"`
	F   uint64 `json:"f,omitempty"`
	T   bool   `json:"t,omitempty"`
}

// AVar describes an ASCII variable with its fill-in length bounds (Max -1 = none).
type AVar struct {
	Name string `json:"name"`
	Min  int    `json:"min"`
	Max  int    `json:"max"`
}

// Bulk describes a large payload that is not written out element by element:
// N elements produced by a splitmix64 stream started at Seed.
type Bulk struct {
	N    int    `json:"n"`
	Seed uint64 `json:"seed"`
}

// Child is an entry of a list: a nested node, or an item variable / ellipsis name.
type Child struct {
	Node *Node  `json:"node,omitempty"`
	Var  string `json:"var,omitempty"`
}

// Node is a model item.
type Node struct {
	Kind     string  `json:"k"`
	Children []Child `json:"c,omitempty"` // L
	Elems    []Elem  `json:"e,omitempty"` // arrays
	Str      string  `json:"s,omitempty"` // A literal (7-bit)
	AVar     *AVar   `json:"av,omitempty"`
	Bulk     *Bulk   `json:"bulk,omitempty"` // replaces Elems / Str / Children when set
}

// IsEllipsisName reports whether a list-variable name denotes an ellipsis.
func IsEllipsisName(s string) bool {
	if !strings.HasPrefix(s, "...") {
		return false
	}
	rest := s[3:]
	if rest == "" {
		return true
	}
	if len(rest) < 3 || rest[0] != '[' || rest[len(rest)-1] != ']' {
		return false
	}
	for _, c := range rest[1 : len(rest)-1] {
		if c < '0' || c > '9' {
			return false
		}
	}
	return true
}

// splitmix64 is the generator used for bulk payloads.
func splitmix64(state *uint64) uint64 {
	*state += 0x9E3779B97F4A7C15
	z := *state
	z = (z ^ (z >> 30)) * 0xBF58476D1CE4E5B9
	z = (z ^ (z >> 27)) * 0x94D049BB133111EB
	return z ^ (z >> 31)
}

// Mix64 is exported for deterministic derived choices in generators / seeds.
func Mix64(x uint64) uint64 {
	s := x
	return splitmix64(&s)
}

// Expanded returns the node with any Bulk description written out (shallow copy
// for nodes without Bulk). Children are expanded recursively.
func (n *Node) Expanded() *Node {
	out := *n
	if n.Bulk != nil {
		st := n.Bulk.Seed
		out.Bulk = nil
		switch {
		case n.Kind == L:
			out.Children = make([]Child, n.Bulk.N)
			for i := range out.Children {
				r := splitmix64(&st)
				var c *Node
				switch r % 3 {
				case 0:
					c = &Node{Kind: L}
				case 1:
					c = &Node{Kind: U1, Elems: []Elem{{U: (r >> 8) & 0xFF}}}
				default:
					c = &Node{Kind: A, Str: string(rune('a' + (r>>8)%26))}
				}
				out.Children[i] = Child{Node: c}
			}
		case n.Kind == A:
			b := make([]byte, n.Bulk.N)
			for i := range b {
				b[i] = byte(splitmix64(&st) & 0x7F)
			}
			out.Str = string(b)
		default:
			out.Elems = make([]Elem, n.Bulk.N)
			for i := range out.Elems {
				out.Elems[i] = elemFromBits(n.Kind, splitmix64(&st))
			}
		}
		return &out
	}
	if n.Kind == L && len(n.Children) > 0 {
		out.Children = make([]Child, len(n.Children))
		for i, c := range n.Children {
			if c.Node != nil {
				out.Children[i] = Child{Node: c.Node.Expanded()}
			} else {
				out.Children[i] = c
			}
		}
	}
	return &out
}

// elemFromBits maps 64 random bits onto a valid element of the kind.
func elemFromBits(kind string, r uint64) Elem {
	switch kind {
	case B, U1:
		return Elem{U: r & 0xFF}
	case U2:
		return Elem{U: r & 0xFFFF}
	case U4:
		return Elem{U: r & 0xFFFFFFFF}
	case U8:
		return Elem{U: r}
	case I1:
		return Elem{I: int64(int8(r))}
	case I2:
		return Elem{I: int64(int16(r))}
	case I4:
		return Elem{I: int64(int32(r))}
	case I8:
		return Elem{I: int64(r)}
	case BOOLEAN:
		return Elem{T: r&1 == 1}
	case F4:
		bits := uint32(r)
		if bits&0x7F800000 == 0x7F800000 { // NaN / Inf exponent: clear one exponent bit
			bits &^= 0x00800000
		}
		return Elem{F: math.Float64bits(float64(math.Float32frombits(bits)))}
	case F8:
		if r&0x7FF0000000000000 == 0x7FF0000000000000 {
			r &^= 0x0010000000000000
		}
		return Elem{F: r}
	}
	panic("model: elemFromBits " + kind)
}

// Count is the element count of a node (characters for A, children for L);
// -1 for an ASCII variable.
func (n *Node) Count() int {
	if n.Bulk != nil {
		return n.Bulk.N
	}
	switch n.Kind {
	case L:
		return len(n.Children)
	case A:
		if n.AVar != nil {
			return -1
		}
		return len(n.Str)
	default:
		return len(n.Elems)
	}
}

// Variables lists variable names in printed order (recursively for lists).
func (n *Node) Variables() []string {
	out := []string{}
	n.appendVars(&out)
	return out
}

func (n *Node) appendVars(out *[]string) {
	if n.Bulk != nil {
		return
	}
	switch n.Kind {
	case L:
		for _, c := range n.Children {
			if c.Node != nil {
				c.Node.appendVars(out)
			} else {
				*out = append(*out, c.Var)
			}
		}
	case A:
		if n.AVar != nil {
			*out = append(*out, n.AVar.Name)
		}
	default:
		for _, e := range n.Elems {
			if e.Var != "" {
				*out = append(*out, e.Var)
			}
		}
	}
}

// HasVariables reports whether any variable (incl. ellipsis) remains.
func (n *Node) HasVariables() bool { return len(n.Variables()) > 0 }

// Depth is 1 for a leaf or an empty list.
func (n *Node) Depth() int {
	d := 0
	if n.Kind == L && n.Bulk == nil {
		for _, c := range n.Children {
			if c.Node != nil {
				if cd := c.Node.Depth(); cd > d {
					d = cd
				}
			}
		}
	}
	return d + 1
}

// Walk visits nodes in preorder.
func (n *Node) Walk(f func(*Node)) {
	f(n)
	if n.Kind == L && n.Bulk == nil {
		for _, c := range n.Children {
			if c.Node != nil {
				c.Node.Walk(f)
			}
		}
	}
}

// Clone is a deep copy.
func (n *Node) Clone() *Node {
	if n == nil {
		return nil
	}
	out := *n
	if n.Children != nil {
		out.Children = make([]Child, len(n.Children))
		for i, c := range n.Children {
			out.Children[i] = Child{Node: c.Node.Clone(), Var: c.Var}
		}
	}
	if n.Elems != nil {
		out.Elems = append([]Elem(nil), n.Elems...)
	}
	if n.AVar != nil {
		av := *n.AVar
		out.AVar = &av
	}
	if n.Bulk != nil {
		b := *n.Bulk
		out.Bulk = &b
	}
	return &out
}

// Brief renders a short, bounded description of a node for evidence samples.
func (n *Node) Brief() string {
	var sb strings.Builder
	n.brief(&sb, 0)
	s := sb.String()
	if len(s) > 400 {
		s = s[:400] + "..."
	}
	return s
}

func (n *Node) brief(sb *strings.Builder, depth int) {
	if sb.Len() > 400 {
		return
	}
	fmt.Fprintf(sb, "<%s", n.Kind)
	if n.Bulk != nil {
		fmt.Fprintf(sb, " bulk(n=%d,seed=%#x)>", n.Bulk.N, n.Bulk.Seed)
		return
	}
	switch n.Kind {
	case L:
		for _, c := range n.Children {
			sb.WriteByte(' ')
			if c.Node != nil {
				c.Node.brief(sb, depth+1)
			} else {
				sb.WriteString(c.Var)
			}
			if sb.Len() > 400 {
				break
			}
		}
	case A:
		if n.AVar != nil {
			fmt.Fprintf(sb, "[%d..%d] %s", n.AVar.Min, n.AVar.Max, n.AVar.Name)
		} else {
			s := n.Str
			if len(s) > 40 {
				s = s[:40] + "…"
			}
			fmt.Fprintf(sb, " %q(len %d)", s, len(n.Str))
		}
	default:
		for i, e := range n.Elems {
			if i >= 8 {
				fmt.Fprintf(sb, " …(%d)", len(n.Elems))
				break
			}
			sb.WriteByte(' ')
			switch {
			case e.Var != "":
				sb.WriteString(e.Var)
			case IsSigned(n.Kind):
				fmt.Fprintf(sb, "%d", e.I)
			case IsFloat(n.Kind):
				fmt.Fprintf(sb, "%g", math.Float64frombits(e.F))
			case n.Kind == BOOLEAN:
				fmt.Fprintf(sb, "%v", e.T)
			default:
				fmt.Fprintf(sb, "%d", e.U)
			}
		}
	}
	sb.WriteByte('>')
}

// HexBytes is a byte string that is written as hexadecimal text in JSON.
type HexBytes []byte

func (h HexBytes) MarshalJSON() ([]byte, error) {
	return []byte(`"` + fmt.Sprintf("%x", []byte(h)) + `"`), nil
}

func (h *HexBytes) UnmarshalJSON(b []byte) error {
	s := strings.Trim(string(b), `"`)
	out := make([]byte, len(s)/2)
	for i := range out {
		var v int
		if _, err := fmt.Sscanf(s[2*i:2*i+2], "%02x", &v); err != nil {
			return err
		}
		out[i] = byte(v)
	}
	*h = out
	return nil
}
