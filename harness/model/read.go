package model

import (
	"fmt"
	"math"
	"math/big"
	"strings"
)

// Reader for the printed form of items. It is a small independent
// implementation of SML's lexical rules for a single item: type name, optional
// size, then numbers / T F / names / quoted runs / nested items. It is used
// where a property speaks about the printed form (C12, C16).

// PElem is one printed element of an array item.
type PElem struct {
	Var  string // name, when the element is a variable
	Text string // literal text otherwise
}

// PNode is a parsed printed item.
type PNode struct {
	Kind     string
	HasSize  bool
	SizeText string   // text between [ and ]
	Elems    []PElem  // arrays
	Str      []byte   // A literal
	AVar     string   // A variable name
	Children []PChild // L
}

// PChild is a list entry of a printed list.
type PChild struct {
	Node *PNode
	Var  string // item variable or "..." ellipsis
}

type reader struct {
	s   string
	pos int
}

func (r *reader) skipSpace() {
	for r.pos < len(r.s) && (r.s[r.pos] == ' ' || r.s[r.pos] == '\n' || r.s[r.pos] == '\t' || r.s[r.pos] == '\r') {
		r.pos++
	}
}

func isNameStart(c byte) bool {
	return c == '_' || (c >= 'a' && c <= 'z') || (c >= 'A' && c <= 'Z')
}

func isNameChar(c byte) bool { return isNameStart(c) || (c >= '0' && c <= '9') }

// ReadItem parses the printed form of exactly one item.
func ReadItem(s string) (*PNode, error) {
	r := &reader{s: s}
	n, err := r.item()
	if err != nil {
		return nil, err
	}
	r.skipSpace()
	if r.pos != len(r.s) {
		return nil, fmt.Errorf("text after the item at offset %d: %q", r.pos, clip(r.s[r.pos:]))
	}
	return n, nil
}

func clip(s string) string {
	if len(s) > 40 {
		return s[:40] + "…"
	}
	return s
}

func (r *reader) word() string {
	start := r.pos
	for r.pos < len(r.s) && isNameChar(r.s[r.pos]) {
		r.pos++
	}
	return r.s[start:r.pos]
}

func (r *reader) item() (*PNode, error) {
	r.skipSpace()
	if r.pos >= len(r.s) || r.s[r.pos] != '<' {
		return nil, fmt.Errorf("expected '<' at offset %d: %q", r.pos, clip(r.s[r.pos:]))
	}
	r.pos++
	r.skipSpace()
	kind := strings.ToUpper(r.word())
	ok := false
	for _, k := range AllKinds {
		if k == kind {
			ok = true
		}
	}
	if !ok {
		return nil, fmt.Errorf("unknown item type %q at offset %d", kind, r.pos)
	}
	n := &PNode{Kind: kind}
	r.skipSpace()
	if r.pos < len(r.s) && r.s[r.pos] == '[' {
		end := strings.IndexByte(r.s[r.pos:], ']')
		if end < 0 {
			return nil, fmt.Errorf("unclosed size at offset %d", r.pos)
		}
		n.HasSize = true
		n.SizeText = r.s[r.pos+1 : r.pos+end]
		r.pos += end + 1
	}
	for {
		r.skipSpace()
		if r.pos >= len(r.s) {
			return nil, fmt.Errorf("unclosed item <%s", kind)
		}
		c := r.s[r.pos]
		switch {
		case c == '>':
			r.pos++
			return n, nil
		case c == '<':
			if kind != L {
				return nil, fmt.Errorf("nested item inside <%s at offset %d", kind, r.pos)
			}
			child, err := r.item()
			if err != nil {
				return nil, err
			}
			n.Children = append(n.Children, PChild{Node: child})
		case c == '"':
			if kind != A {
				return nil, fmt.Errorf("quoted string inside <%s at offset %d", kind, r.pos)
			}
			end := strings.IndexByte(r.s[r.pos+1:], '"')
			if end < 0 {
				return nil, fmt.Errorf("unclosed quote at offset %d", r.pos)
			}
			run := r.s[r.pos+1 : r.pos+1+end]
			if strings.ContainsAny(run, "\r\n") {
				return nil, fmt.Errorf("line break inside quotes at offset %d", r.pos)
			}
			n.Str = append(n.Str, run...)
			r.pos += end + 2
		case strings.HasPrefix(r.s[r.pos:], "..."):
			if kind != L {
				return nil, fmt.Errorf("ellipsis inside <%s", kind)
			}
			start := r.pos
			r.pos += 3
			if r.pos < len(r.s) && r.s[r.pos] == '[' {
				end := strings.IndexByte(r.s[r.pos:], ']')
				if end < 0 {
					return nil, fmt.Errorf("unclosed ellipsis index")
				}
				r.pos += end + 1
			}
			n.Children = append(n.Children, PChild{Var: r.s[start:r.pos]})
		case isNameStart(c):
			start := r.pos
			r.word()
			for r.pos < len(r.s) && r.s[r.pos] == '[' {
				end := strings.IndexByte(r.s[r.pos:], ']')
				if end < 0 {
					return nil, fmt.Errorf("unclosed name suffix at offset %d", r.pos)
				}
				r.pos += end + 1
			}
			name := r.s[start:r.pos]
			switch {
			case kind == L:
				n.Children = append(n.Children, PChild{Var: name})
			case kind == A:
				if n.AVar != "" || len(n.Str) > 0 {
					return nil, fmt.Errorf("ASCII item mixes a name with other content at offset %d", start)
				}
				n.AVar = name
			case kind == BOOLEAN && (name == "T" || name == "F"):
				n.Elems = append(n.Elems, PElem{Text: name})
			default:
				n.Elems = append(n.Elems, PElem{Var: name})
			}
		case c == '+' || c == '-' || c == '.' || (c >= '0' && c <= '9'):
			start := r.pos
			for r.pos < len(r.s) {
				ch := r.s[r.pos]
				if isNameChar(ch) || ch == '+' || ch == '-' || ch == '.' {
					r.pos++
					continue
				}
				break
			}
			text := r.s[start:r.pos]
			if kind == A {
				v, ok := new(big.Int).SetString(text, 0)
				if !ok || v.Sign() < 0 || v.Cmp(big.NewInt(127)) > 0 {
					return nil, fmt.Errorf("bad ASCII code %q", text)
				}
				n.Str = append(n.Str, byte(v.Int64()))
			} else if kind == L {
				return nil, fmt.Errorf("number inside a list at offset %d", start)
			} else {
				n.Elems = append(n.Elems, PElem{Text: text})
			}
		default:
			return nil, fmt.Errorf("unexpected character %q at offset %d", c, r.pos)
		}
	}
}

// Names lists the names (variables; ellipses as "...") in printed order.
func (n *PNode) Names() []string {
	var out []string
	var walk func(*PNode)
	walk = func(x *PNode) {
		switch x.Kind {
		case L:
			for _, c := range x.Children {
				if c.Node != nil {
					walk(c.Node)
				} else if strings.HasPrefix(c.Var, "...") {
					out = append(out, "...")
				} else {
					out = append(out, c.Var)
				}
			}
		case A:
			if x.AVar != "" {
				out = append(out, x.AVar)
			}
		default:
			for _, e := range x.Elems {
				if e.Var != "" {
					out = append(out, e.Var)
				}
			}
		}
	}
	walk(n)
	return out
}

// PrintedCount is the number of elements the printed form shows.
func (n *PNode) PrintedCount() int {
	switch n.Kind {
	case L:
		return len(n.Children)
	case A:
		if n.AVar != "" {
			return -1
		}
		return len(n.Str)
	}
	return len(n.Elems)
}

// ParseIntegerLiteral reads an integer literal (decimal, 0x, 0o, 0b, leading
// zero = octal is NOT assumed: plain digits are decimal) exactly.
func ParseIntegerLiteral(text string) (*big.Int, bool) {
	t := text
	neg := false
	if strings.HasPrefix(t, "-") {
		neg = true
		t = t[1:]
	} else if strings.HasPrefix(t, "+") {
		t = t[1:]
	}
	base := 10
	if len(t) > 2 && t[0] == '0' {
		switch t[1] {
		case 'x', 'X':
			base, t = 16, t[2:]
		case 'b', 'B':
			base, t = 2, t[2:]
		case 'o', 'O':
			base, t = 8, t[2:]
		}
	}
	if t == "" {
		return nil, false
	}
	v, ok := new(big.Int).SetString(t, base)
	if !ok {
		return nil, false
	}
	if neg {
		v.Neg(v)
	}
	return v, true
}

// ParseDecimalExact reads a decimal floating-point literal (digits, optional
// fraction, optional exponent) as an exact rational.
func ParseDecimalExact(text string) (*big.Rat, bool) {
	r, ok := new(big.Rat).SetString(text)
	return r, ok
}

// NearestFloat32Bits / NearestFloat64Bits round an exact rational to the
// nearest representable value (ties to even); overflow reports ok=false.
func NearestFloat32Bits(r *big.Rat) (uint32, bool) {
	f, _ := r.Float32()
	if math.IsInf(float64(f), 0) {
		return 0, false
	}
	return math.Float32bits(f), true
}

func NearestFloat64Bits(r *big.Rat) (uint64, bool) {
	f, _ := r.Float64()
	if math.IsInf(f, 0) {
		return 0, false
	}
	return math.Float64bits(f), true
}
