package model

import (
	"fmt"
	"math"
)

// DecodeResult is the verdict of the strict reference decoder.
type DecodeResult struct {
	OK              bool
	Reason          string // rejection class when !OK
	Msg             *Msg
	ControlWithText bool // PType 0, defined control SType, but bytes after the header (outside the accept rule of C03; tolerated either way)
	ItemReached     bool // the outer checks passed and the item decoder ran
}

// DefinedControlSType reports the control STypes of HSMS (E37).
func DefinedControlSType(s byte) bool {
	return (s >= 1 && s <= 7) || s == 9
}

// ControlTypeName maps (PType, SType) to the message type name.
func ControlTypeName(ptype, stype byte) string {
	if ptype != 0 {
		return "undefined"
	}
	switch stype {
	case 1:
		return "select.req"
	case 2:
		return "select.rsp"
	case 3:
		return "deselect.req"
	case 4:
		return "deselect.rsp"
	case 5:
		return "linktest.req"
	case 6:
		return "linktest.rsp"
	case 7:
		return "reject.req"
	case 9:
		return "separate.req"
	}
	return "undefined"
}

type decoder struct {
	in  []byte
	pos int
}

type rejectErr string

func (r rejectErr) Error() string { return string(r) }

// RefDecode implements the accept set of property C03 literally.
func RefDecode(in []byte) (res DecodeResult) {
	if len(in) < 14 {
		return DecodeResult{Reason: "shorter-than-14"}
	}
	declared := int(uint32(in[0])<<24 | uint32(in[1])<<16 | uint32(in[2])<<8 | uint32(in[3]))
	if declared != len(in)-4 {
		return DecodeResult{Reason: "outer-length-mismatch"}
	}
	hdr := in[4:14]
	if hdr[4] != 0 {
		return DecodeResult{Reason: "ptype-nonzero"}
	}
	st := hdr[5]
	if st != 0 {
		if !DefinedControlSType(st) {
			return DecodeResult{Reason: "stype-undefined"}
		}
		m := &Msg{Control: true, Header: append([]byte(nil), hdr...)}
		return DecodeResult{OK: true, Msg: m, ControlWithText: len(in) > 14}
	}
	m := &Msg{
		Session:  int(hdr[0])<<8 | int(hdr[1]),
		Stream:   int(hdr[2] & 0x7F),
		Wait:     hdr[2]&0x80 != 0,
		Function: int(hdr[3]),
	}
	copy(m.System[:], hdr[6:10])
	if m.Wait && m.Function%2 == 0 {
		return DecodeResult{Reason: "wbit-on-even-function"}
	}
	if len(in) == 14 {
		return DecodeResult{OK: true, Msg: m}
	}
	d := &decoder{in: in, pos: 14}
	item, err := d.item()
	if err != nil {
		return DecodeResult{Reason: err.Error(), ItemReached: true}
	}
	if d.pos != len(in) {
		return DecodeResult{Reason: "trailing-bytes-after-item", ItemReached: true}
	}
	m.Item = item
	return DecodeResult{OK: true, Msg: m, ItemReached: true}
}

// RefDecodeItem decodes exactly one item occupying all of in.
func RefDecodeItem(in []byte) (*Node, error) {
	d := &decoder{in: in}
	n, err := d.item()
	if err != nil {
		return nil, err
	}
	if d.pos != len(in) {
		return nil, rejectErr("trailing-bytes-after-item")
	}
	return n, nil
}

func (d *decoder) item() (*Node, error) {
	if d.pos >= len(d.in) {
		return nil, rejectErr("item-missing")
	}
	fb := d.in[d.pos]
	d.pos++
	kind := KindOfFormatCode(int(fb >> 2))
	nlb := int(fb & 3)
	if kind == "" {
		return nil, rejectErr("format-code-undefined")
	}
	if nlb == 0 {
		return nil, rejectErr("zero-length-bytes")
	}
	if d.pos+nlb > len(d.in) {
		return nil, rejectErr("length-bytes-truncated")
	}
	length := 0
	for i := 0; i < nlb; i++ {
		length = length<<8 | int(d.in[d.pos+i])
	}
	d.pos += nlb
	if kind == L {
		// each child needs at least 2 bytes; check before allocating
		if length > (len(d.in)-d.pos)/2 {
			return nil, rejectErr("list-children-missing")
		}
		n := &Node{Kind: L, Children: make([]Child, 0, length)}
		for i := 0; i < length; i++ {
			c, err := d.item()
			if err != nil {
				return nil, err
			}
			n.Children = append(n.Children, Child{Node: c})
		}
		return n, nil
	}
	if d.pos+length > len(d.in) {
		return nil, rejectErr("payload-truncated")
	}
	w := Width(kind)
	if length%w != 0 {
		return nil, rejectErr("length-not-multiple-of-width")
	}
	p := d.in[d.pos : d.pos+length]
	d.pos += length
	if kind == A {
		for _, c := range p {
			if c >= 0x80 {
				return nil, rejectErr("non-ascii-byte")
			}
		}
		return &Node{Kind: A, Str: string(p)}, nil
	}
	n := &Node{Kind: kind, Elems: make([]Elem, 0, length/w)}
	for i := 0; i < length; i += w {
		var bits uint64
		for j := 0; j < w; j++ {
			bits = bits<<8 | uint64(p[i+j])
		}
		var e Elem
		switch kind {
		case B, U1, U2, U4, U8:
			e.U = bits
		case BOOLEAN:
			e.T = bits != 0
		case I1:
			e.I = int64(int8(bits))
		case I2:
			e.I = int64(int16(bits))
		case I4:
			e.I = int64(int32(bits))
		case I8:
			e.I = int64(bits)
		case F4:
			f := math.Float32frombits(uint32(bits))
			if f != f || math.IsInf(float64(f), 0) {
				return nil, rejectErr("non-finite-float")
			}
			e.F = math.Float64bits(float64(f))
		case F8:
			f := math.Float64frombits(bits)
			if f != f || math.IsInf(f, 0) {
				return nil, rejectErr("non-finite-float")
			}
			e.F = bits
		default:
			return nil, fmt.Errorf("model: unexpected kind %s", kind)
		}
		n.Elems = append(n.Elems, e)
	}
	return n, nil
}
