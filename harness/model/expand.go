package model

import (
	"fmt"
	"strings"
)

// RefExpand is the reference semantics of ellipsis expansion, written from the
// documentation of the list type:
//
//   - filling an ellipsis with n makes the entries before it appear n+1 times and
//     the entries after it once; n = 0 only removes the ellipsis;
//   - when n > 0 the variable names in copy j get the suffix [j], appended after
//     the suffixes contributed by the enclosing expanded ellipses (outermost first);
//   - ellipses nested inside a repeated group are expanded in every copy;
//   - unfilled ellipses stay and are numbered in order of appearance ("..." when a
//     single one remains, "...[k]" otherwise);
//   - when no key names an ellipsis of the template, nothing changes.
//
// fills maps ellipsis names of the template to repeat counts. matched reports
// whether any key named an ellipsis of the template.
func RefExpand(n *Node, fills map[string]int) (result *Node, matched bool) {
	if n.Kind != L || n.Bulk != nil {
		return n.Clone(), false
	}
	n.Walk(func(x *Node) {
		if x.Kind != L || x.Bulk != nil {
			return
		}
		for _, c := range x.Children {
			if c.Node == nil && IsEllipsisName(c.Var) {
				if _, ok := fills[c.Var]; ok {
					matched = true
				}
			}
		}
	})
	if !matched {
		return n.Clone(), false
	}
	out := expandList(n, fills, nil)
	// number the remaining ellipses in order of appearance
	var remaining []*Child
	var collect func(x *Node)
	collect = func(x *Node) {
		if x.Kind != L || x.Bulk != nil {
			return
		}
		for i := range x.Children {
			c := &x.Children[i]
			if c.Node != nil {
				collect(c.Node)
			} else if IsEllipsisName(c.Var) {
				remaining = append(remaining, c)
			}
		}
	}
	collect(out)
	for k, c := range remaining {
		if len(remaining) == 1 {
			c.Var = "..."
		} else {
			c.Var = fmt.Sprintf("...[%d]", k)
		}
	}
	return out, true
}

func suffixOf(dims []int) string {
	var sb strings.Builder
	for _, d := range dims {
		fmt.Fprintf(&sb, "[%d]", d)
	}
	return sb.String()
}

func expandList(n *Node, fills map[string]int, dims []int) *Node {
	out := &Node{Kind: L}
	if n.Bulk != nil {
		return n.Clone()
	}
	ellipsisAt, count, filled := -1, 0, false
	for i, c := range n.Children {
		if c.Node == nil && IsEllipsisName(c.Var) {
			if v, ok := fills[c.Var]; ok {
				ellipsisAt, count, filled = i, v, true
			}
			break // at most one ellipsis per list
		}
	}
	if !filled {
		for _, c := range n.Children {
			out.Children = append(out.Children, copyChild(c, fills, dims))
		}
		return out
	}
	group := n.Children[:ellipsisAt]
	rest := n.Children[ellipsisAt+1:]
	if count == 0 {
		for _, c := range group {
			out.Children = append(out.Children, copyChild(c, fills, dims))
		}
	} else {
		for j := 0; j <= count; j++ {
			d := append(append([]int(nil), dims...), j)
			for _, c := range group {
				out.Children = append(out.Children, copyChild(c, fills, d))
			}
		}
	}
	for _, c := range rest {
		out.Children = append(out.Children, copyChild(c, fills, dims))
	}
	return out
}

func copyChild(c Child, fills map[string]int, dims []int) Child {
	sfx := suffixOf(dims)
	if c.Node == nil {
		if IsEllipsisName(c.Var) {
			return Child{Var: "..."} // renumbered afterwards
		}
		return Child{Var: c.Var + sfx}
	}
	if c.Node.Kind == L {
		return Child{Node: expandList(c.Node, fills, dims)}
	}
	leaf := c.Node.Clone()
	if leaf.Bulk == nil {
		if leaf.AVar != nil {
			leaf.AVar.Name += sfx
		}
		for i := range leaf.Elems {
			if leaf.Elems[i].Var != "" {
				leaf.Elems[i].Var += sfx
			}
		}
	}
	return Child{Node: leaf}
}

// EllipsisNamesAgree compares two variable listings modulo the documented
// renumbering of ellipses: positions must agree on ellipsis / non-ellipsis,
// ordinary names must be equal, and the k-th remaining ellipsis may be called
// "..." or "...[0]" when it is the only one, "...[k]" otherwise.
func EllipsisNamesAgree(got, want []string) bool {
	if len(got) != len(want) {
		return false
	}
	total := 0
	for _, w := range want {
		if IsEllipsisName(w) {
			total++
		}
	}
	k := 0
	for i := range got {
		ge, we := IsEllipsisName(got[i]), IsEllipsisName(want[i])
		if ge != we {
			return false
		}
		if !ge {
			if got[i] != want[i] {
				return false
			}
			continue
		}
		if total == 1 {
			if got[i] != "..." && got[i] != "...[0]" {
				return false
			}
		} else if got[i] != fmt.Sprintf("...[%d]", k) {
			return false
		}
		k++
	}
	return true
}
