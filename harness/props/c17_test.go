package props

import (
	"encoding/json"
	"fmt"
	"os"
	"path/filepath"
	"strings"
	"sync"
	"testing"

	"verifharness/model"

	"github.com/wolimst/lib-secs2-hsms-go/pkg/ast"
	"github.com/wolimst/lib-secs2-hsms-go/pkg/parser/hsms"
	"github.com/wolimst/lib-secs2-hsms-go/pkg/parser/sml"
	"pgregory.net/rapid"
)

// C17 - shared items, messages and parsers are safe for concurrent use.
// Built with -race: the race detector aborts the process on the first report
// (GORACE=halt_on_error=1); every concurrent result must equal the sequential one.

type c17Case struct {
	Tree       *model.Node    `json:"tree"`
	Hdr        Hdr            `json:"hdr"`
	Counts     map[string]int `json:"counts,omitempty"` // ellipsis fills used by the FillVariables operations
	Ops        []string       `json:"ops"`
	Goroutines int            `json:"goroutines"`
	Rounds     int            `json:"rounds"`
	BadText    bool           `json:"bad_text"`
	Variant    int            `json:"variant"`
}

func init() { registerReplay("c17", checkC17) }

var c17OpNames = []string{
	"item.String", "item.ToBytes", "item.Variables", "item.Size", "item.Fill", "item.FillEllipsis",
	"msg.String", "msg.ToBytes", "msg.Variables", "msg.Header", "msg.SetWaitBit", "msg.SetSession", "msg.Fill", "msg.SystemBytes",
	"sml.Parse", "hsms.Parse", "build.List", "hsms.ParseRejected", "hsms.ParseRejected", "sml.ParseRejected",
	"complete.SetSession", "complete.SetWaitBit", "complete.Fill", "sml.ParseDeep", "hsms.ParseDeep",
	"ctrl.SelectRsp", "ctrl.DeselectRsp", "ctrl.LinktestRsp", "ctrl.Observe", "ctrl.Observe",
	"fix.ExpandAndInsertShared", "fix.ObserveShared",
}

type c17Shared struct {
	item     ast.ItemNode
	msg      *ast.DataMessage
	complete *ast.DataMessage
	text     string
	wire     []byte
	fill     map[string]interface{}
	efill    map[string]interface{}
	rejected []byte
	badText  string
	// shared control-message requests: answered and observed at the same time
	selReq, deselReq, ltReq ast.HSMSMessage
	// a template with an ellipsis and an item variable, and a shared item (with a variable of its own) that becomes
	// the value of that item variable in a call that also expands the ellipsis and names the value's variable
	fixTmpl, sharedVal ast.ItemNode
}

var c17DeepText = "S1F1 W H->E deep\n" + strings.Repeat("<L ", 130) + "<U1 1>" + strings.Repeat(">", 130) + "\n."

var c17DeepWire = func() []byte {
	b := append([]byte(nil), c07Header...)
	for i := 0; i < 200; i++ {
		b = append(b, 0x01, 0x01)
	}
	return patchLen(append(b, 0xA5, 0x01, 0x07))
}()

func (s *c17Shared) run(op string) string {
	switch op {
	case "item.String":
		return itemString(s.item)
	case "item.ToBytes":
		return string(s.item.ToBytes())
	case "item.Variables":
		return strings.Join(s.item.Variables(), ",")
	case "item.Size":
		return fmt.Sprint(s.item.Size())
	case "item.Fill":
		return itemString(s.item.FillVariables(s.fill))
	case "item.FillEllipsis":
		return itemString(s.item.FillVariables(s.efill))
	case "msg.String":
		return s.msg.String()
	case "msg.ToBytes":
		return string(s.complete.ToBytes())
	case "msg.Variables":
		return strings.Join(s.msg.Variables(), ",")
	case "msg.Header":
		return s.msg.Header()
	case "msg.SetWaitBit":
		return s.msg.SetWaitBit(false).Header()
	case "msg.SetSession":
		m := s.msg.SetSessionIDAndSystemBytes(99, []byte{1, 2, 3, 4})
		return fmt.Sprint(m.SessionID(), m.SystemBytes())
	case "msg.Fill":
		return s.msg.FillVariables(s.fill).String()
	case "msg.SystemBytes":
		b := s.complete.SystemBytes()
		b[0] ^= 0xFF // writing to the returned copy must be harmless
		return fmt.Sprint(s.complete.SessionID())
	case "sml.Parse":
		msgs, errs, warns := sml.Parse(s.text)
		var sb strings.Builder
		for _, m := range msgs {
			sb.WriteString(m.String())
		}
		return sb.String() + "|" + strings.Join(errs, ";") + "|" + strings.Join(warns, ";")
	case "hsms.Parse":
		m, ok := hsms.Parse(s.wire)
		if !ok {
			return "rejected"
		}
		return string(m.ToBytes())
	case "complete.SetSession":
		// deriving from the complete message while others encode it for the first time
		return string(s.complete.SetSessionIDAndSystemBytes(321, []byte{4, 3, 2, 1}).ToBytes())
	case "complete.SetWaitBit":
		return string(s.complete.SetWaitBit(true).ToBytes())
	case "complete.Fill":
		return string(s.complete.FillVariables(s.fill).ToBytes())
	case "hsms.ParseRejected":
		// a well-formed frame that only the message / item constructors refuse (panic + recover path of the decoder)
		_, ok := hsms.Parse(s.rejected)
		return fmt.Sprint("ok=", ok)
	case "fix.ExpandAndInsertShared":
		return itemString(s.fixTmpl.FillVariables(map[string]interface{}{"...": 1, "y_sh": "hi", "x_item": s.sharedVal}))
	case "fix.ObserveShared":
		return itemString(s.sharedVal) + strings.Join(s.sharedVal.Variables(), ",") + itemString(s.sharedVal.FillVariables(map[string]interface{}{"y_sh": "zz"}))
	case "ctrl.SelectRsp":
		return string(ast.NewHSMSMessageSelectRsp(s.selReq, 3).ToBytes())
	case "ctrl.DeselectRsp":
		return string(ast.NewHSMSMessageDeselectRsp(s.deselReq, 1).ToBytes())
	case "ctrl.LinktestRsp":
		return string(ast.NewHSMSMessageLinktestRsp(s.ltReq).ToBytes())
	case "ctrl.Observe":
		return s.selReq.Type() + string(s.selReq.ToBytes()) + s.deselReq.Type() + string(s.deselReq.ToBytes()) + s.ltReq.Type() + string(s.ltReq.ToBytes())
	case "sml.ParseDeep":
		// a legal, deeply nested text: whatever bookkeeping the parser does per nesting level is per call
		msgs, errs, _ := sml.Parse(c17DeepText)
		return fmt.Sprint(len(msgs), "|", strings.Join(errs, ";"))
	case "hsms.ParseDeep":
		m, ok := hsms.Parse(c17DeepWire)
		if !ok {
			return "rejected"
		}
		return fmt.Sprint(len(m.ToBytes()))
	case "sml.ParseRejected":
		msgs, errs, _ := sml.Parse(s.badText)
		return fmt.Sprint(len(msgs), "|", strings.Join(errs, ";"))
	case "build.List":
		// a new list sharing the same child item
		if len(s.item.Variables()) > 0 {
			return itemString(ast.NewListNode(s.item))
		}
		return itemString(ast.NewListNode(s.item, s.item))
	}
	return "?"
}

func checkC17(c c17Case) (ci caseInfo, err error) {
	// leave a trace of the case in flight: a race report aborts the process
	if dir := os.Getenv("VERIF_REPLAY_DIR"); dir != "" {
		_ = os.MkdirAll(dir, 0o755)
		shard, _ := shardInfo()
		raw, _ := json.Marshal(c)
		rf, _ := json.MarshalIndent(replayFile{Property: "C17", Check: "c17", Error: "case in flight when the process ended (see the race report in the log)", Case: raw}, "", " ")
		_ = os.WriteFile(filepath.Join(dir, fmt.Sprintf("C17-inflight-s%d.json", shard)), rf, 0o644)
	}
	sh := &c17Shared{}
	sh.item = buildItem(c.Tree, c.Variant)
	h := c.Hdr
	sh.msg = ast.NewDataMessage(h.Name, h.Stream, h.Function, 2, h.Dir, sh.item)
	binds := singleFills(c.Tree)
	sh.fill = assignMap(binds, c.Variant)
	sh.efill = map[string]interface{}{}
	for k, v := range c.Counts {
		sh.efill[k] = v
	}
	// a complete message for encoding / decoding
	noE := c.Tree.Clone()
	zero := map[string]int{}
	for _, e := range ellipsisNames(noE.Variables()) {
		zero[e] = 0
	}
	if len(zero) > 0 {
		noE, _ = model.RefExpand(noE, zero)
	}
	full, serr := substModel(noE, bindMap(singleFills(noE)))
	if serr != nil {
		return ci, fmt.Errorf("harness: %v", serr)
	}
	sh.complete = ast.NewHSMSDataMessage(h.Name, h.Stream, h.Function, 0, h.Dir, buildItem(full, c.Variant), 7, []byte{9, 9, 9, 9})
	// texts and encodings come from SEPARATE instances built from the same model: the shared objects themselves
	// are first observed inside the concurrent phase (a lazily filled per-object memo would otherwise be warm)
	textSrc := ast.NewDataMessage(h.Name, h.Stream, h.Function, 2, h.Dir, buildItem(c.Tree, c.Variant))
	completeSrc := ast.NewHSMSDataMessage(h.Name, h.Stream, h.Function, 0, h.Dir, buildItem(full, c.Variant), 7, []byte{9, 9, 9, 9})
	sh.wire = completeSrc.ToBytes()
	sh.text = textSrc.String() + "\n" + completeSrc.String()
	if c.BadText {
		sh.text = strings.Replace(sh.text, ">", "> 1e999 >", 1)
		sh.wire = append([]byte(nil), sh.wire[:len(sh.wire)-1]...)
	}
	// frames the decoder must reject through the constructors: W-bit on an even function, a NaN, a non-ASCII byte
	switch c.Variant % 3 {
	case 0:
		sh.rejected = append([]byte(nil), sh.wire...)
		if len(sh.rejected) >= 14 {
			sh.rejected[6] |= 0x80
			sh.rejected[7] &^= 1
		}
	case 1:
		sh.rejected = patchLen(append(append([]byte(nil), c07Header...), 0x91, 0x04, 0x7F, 0xC0, 0x00, 0x01))
	default:
		sh.rejected = patchLen(append(append([]byte(nil), c07Header...), 0x41, 0x02, 0x61, 0xE9))
	}
	sh.badText = "S1F2 W H->E\n<L <A[2] \"abc\"> <U1 256> x x>\n."
	sh.fixTmpl = ast.NewListNode(ast.NewUintNode(1, 7), "...", ast.NewASCIINodeVariable("y_other", 0, -1), "x_item")
	sh.sharedVal = ast.NewListNode(ast.NewASCIINodeVariable("y_sh", 0, -1), ast.NewIntNode(2, 5), ast.NewListNode(ast.NewUintNode(1, "u_sh")))
	sh.selReq = ast.NewHSMSMessageSelectReq(uint16(c.Variant*257), []byte{1, 2, 3, byte(c.Variant)})
	sh.deselReq, _ = hsms.Parse(ast.NewHSMSMessageDeselectReq(uint16(c.Variant+9), []byte{9, 8, 7, 6}).ToBytes()) // a decoded request
	sh.ltReq = ast.NewHSMSControlMessage([]byte{0x12, byte(c.Variant), 0, 0, 0, 5, 4, 3, 2, 1})                   // a raw one, bound to a session
	ops := c.Ops
	producers := 0
	for _, op := range ops {
		if strings.Contains(op, "Fill") || strings.Contains(op, "Set") || op == "build.List" {
			producers++
		}
	}
	ci.Nontrivial = c.Goroutines >= 2 && producers >= 1
	ci.label("goroutines=%d", (c.Goroutines+7)/8*8)
	// The concurrent phase comes FIRST: lazily initialised shared state (caches, memoisation) is written on
	// first use, so a sequential warm-up would hide exactly the races this check is after. The results are
	// collected and compared afterwards with what each operation returns alone.
	type result struct {
		g, round, op int
		val          string
	}
	var wg sync.WaitGroup
	start := make(chan struct{})
	results := make([][]result, c.Goroutines)
	panics := make(chan error, c.Goroutines)
	for g := 0; g < c.Goroutines; g++ {
		wg.Add(1)
		go func(g int) {
			defer wg.Done()
			defer func() {
				if r := recover(); r != nil {
					panics <- fmt.Errorf("goroutine %d panicked: %v", g, r)
				}
			}()
			<-start
			for r := 0; r < c.Rounds; r++ {
				for i := range ops {
					k := (i + g) % len(ops)
					results[g] = append(results[g], result{g, r, k, sh.run(ops[k])})
				}
			}
		}(g)
	}
	close(start)
	wg.Wait()
	close(panics)
	for e := range panics {
		return ci, e
	}
	expected := make([]string, len(ops))
	for i, op := range ops {
		expected[i] = sh.run(op)
	}
	for _, rs := range results {
		for _, r := range rs {
			if r.val != expected[r.op] {
				return ci, fmt.Errorf("goroutine %d, round %d: %s returned %q concurrently but %q alone", r.g, r.round, ops[r.op], clipStr(r.val, 200), clipStr(expected[r.op], 200))
			}
		}
	}
	return ci, nil
}

func genC17(t *rapid.T) c17Case {
	c := c17Case{
		Hdr:        genHdr(t, false),
		Goroutines: rapid.SampledFrom([]int{2, 2, 3, 4, 8, 16, 32}).Draw(t, "goroutines"),
		Rounds:     rapid.IntRange(1, 4).Draw(t, "rounds"),
		BadText:    rapid.IntRange(0, 3).Draw(t, "badText") == 3,
		Variant:    rapid.IntRange(0, 11).Draw(t, "variant"),
	}
	c.Hdr.Wait = 0
	c.Tree = genTree(t, treeOpts{Vars: true, Ellipsis: true, NoDeep: true, MaxDepth: 4, MaxElems: 4, VarPct: 35}, newNamer(true, false))
	n := numberEllipses(c.Tree)
	c.Counts = map[string]int{}
	for i := 0; i < n; i++ {
		c.Counts[fmt.Sprintf("...[%d]", i)] = rapid.SampledFrom([]int{0, 1, 1, 2, 2, 3, 5, 9}).Draw(t, "count")
	}
	k := rapid.IntRange(2, 8).Draw(t, "nops")
	for i := 0; i < k; i++ {
		c.Ops = append(c.Ops, rapid.SampledFrom(c17OpNames).Draw(t, "op"))
	}
	return c
}

func TestC17(t *testing.T) {
	rapidProp(t, "C17", "c17", genC17, checkC17)
}
