package props

import (
	"fmt"
	"math"
	"regexp"
	"strings"
	"unicode"
	"unicode/utf8"

	"verifharness/model"

	"pgregory.net/rapid"
)

// ---------------------------------------------------------------------------
// names

var smlKeywords = map[string]bool{
	"L": true, "A": true, "B": true, "BOOLEAN": true, "F4": true, "F8": true,
	"I1": true, "I2": true, "I4": true, "I8": true, "U1": true, "U2": true, "U4": true, "U8": true,
	"T": true, "F": true,
}

var nameWords = []string{"true", "false", "True", "FALSE", "TRUE", "nil", "null", "NaN", "nan", "Inf", "inf", "e5", "E1", "e", "x", "0x1", "0b1", "b1", "x41", "T", "F", "t", "f",
	"L", "A", "B", "U1", "I8", "F4", "F8", "BOOLEAN", "boolean", "list", "var", "W", "S1F1", "H", "E", "MISSING", "EXTRA", "s", "d", "v", "0", "1", "00", "10", "u", "n"}

var keywordList = []string{"T", "F", "T", "F", "L", "A", "B", "BOOLEAN", "F4", "F8", "I1", "I2", "I4", "I8", "U1", "U2", "U4", "U8"}

const nameFirst = "abcdefghijklmnopqrstuvwxyzABCDEFGHIJKLMNOPQRSTUVWXYZ_"
const nameRest = nameFirst + "0123456789"

// namer hands out variable names that are unique within one case.
type namer struct {
	used   map[string]bool
	bases  []string // bases handed out so far, in order (for names related to an earlier one)
	sml    bool     // names must be expressible in SML (no keyword)
	suffix bool     // allow [n] suffixes
}

func newNamer(sml, suffix bool) *namer {
	return &namer{used: map[string]bool{}, sml: sml, suffix: suffix}
}

func (nm *namer) draw(t *rapid.T) string {
	n := rapid.IntRange(1, 7).Draw(t, "nameLen")
	if rapid.IntRange(0, 39).Draw(t, "longName") == 39 {
		n = rapid.IntRange(20, 200).Draw(t, "longNameLen") // nothing limits the length of a name
	}
	var sb strings.Builder
	sb.WriteByte(nameFirst[rapid.IntRange(0, len(nameFirst)-1).Draw(t, "c0")])
	for i := 1; i < n; i++ {
		sb.WriteByte(nameRest[rapid.IntRange(0, len(nameRest)-1).Draw(t, "c")])
	}
	base := sb.String()
	if len(nm.bases) > 0 && rapid.IntRange(0, 7).Draw(t, "relatedName") == 7 {
		// a name that stands in a relation to an earlier one of the same case: differs only in letter case, is a prefix of
		// it, extends it by one character, or is the same base (told apart by an index suffix or the uniqueness counter)
		prev := nm.bases[rapid.IntRange(0, len(nm.bases)-1).Draw(t, "relatedTo")]
		switch rapid.IntRange(0, 3).Draw(t, "relation") {
		case 0:
			i := rapid.IntRange(0, len(prev)-1).Draw(t, "flipAt")
			c := prev[i]
			switch {
			case c >= 'a' && c <= 'z':
				c -= 32
			case c >= 'A' && c <= 'Z':
				c += 32
			}
			base = prev[:i] + string(c) + prev[i+1:]
		case 1:
			base = prev[:rapid.IntRange(1, len(prev)).Draw(t, "prefixLen")]
		case 2:
			base = prev + string(nameRest[rapid.IntRange(0, len(nameRest)-1).Draw(t, "ext")])
		default:
			base = prev
		}
		stats.labelOnly("related-name", 1)
	}
	if rapid.IntRange(0, 9).Draw(t, "wordyName") == 9 {
		// a name made of words that mean something elsewhere (Go / SML spellings of values, type names, header tokens):
		// a replace, a prefix test or a case-insensitive comparison meant for values must not touch names
		k := rapid.IntRange(1, 3).Draw(t, "wordyParts")
		var wb strings.Builder
		for i := 0; i < k; i++ {
			if i > 0 && rapid.Bool().Draw(t, "wordySep") {
				wb.WriteByte('_')
			}
			wb.WriteString(rapid.SampledFrom(nameWords).Draw(t, "word"))
		}
		base = wb.String()
		if c := base[0]; c >= '0' && c <= '9' {
			base = "_" + base
		}
		stats.labelOnly("wordy-name", 1)
	}
	if !nm.sml && rapid.IntRange(0, 11).Draw(t, "keywordName") == 11 {
		// objects built through the factories only: a variable may be called like a literal or a type (T, f, L, u1 ...)
		base = randomCase(t, rapid.SampledFrom(keywordList).Draw(t, "keyword"))
		stats.labelOnly("keyword-like-name", 1)
	}
	if nm.sml && smlKeywords[strings.ToUpper(base)] {
		base += "_"
	}
	nm.bases = append(nm.bases, base)
	name := base
	if nm.suffix {
		k := rapid.IntRange(0, 5).Draw(t, "nsuffix")
		if k >= 4 { // 1 or 2 suffixes with probability 1/3
			for i := 0; i < k-3; i++ {
				if rapid.IntRange(0, 9).Draw(t, "bigSuffix") == 9 {
					name += "[" + rapid.SampledFrom([]string{"99", "100", "007", "65536", "4294967296", "18446744073709551616"}).Draw(t, "bigSuffixVal") + "]"
				} else {
					name += fmt.Sprintf("[%d]", rapid.IntRange(0, 12).Draw(t, "suffix"))
				}
			}
		}
	}
	for i := 0; nm.used[name]; i++ {
		name = fmt.Sprintf("%s_%d", base, i)
	}
	nm.used[name] = true
	return name
}

// ---------------------------------------------------------------------------
// values

func intRangeOf(kind string) (int64, int64) {
	switch kind {
	case model.I1:
		return math.MinInt8, math.MaxInt8
	case model.I2:
		return math.MinInt16, math.MaxInt16
	case model.I4:
		return math.MinInt32, math.MaxInt32
	}
	return math.MinInt64, math.MaxInt64
}

func uintMaxOf(kind string) uint64 {
	switch kind {
	case model.B, model.U1:
		return math.MaxUint8
	case model.U2:
		return math.MaxUint16
	case model.U4:
		return math.MaxUint32
	}
	return math.MaxUint64
}

var f4Specials = []uint32{
	0x00000000, 0x80000000, // +-0
	0x00000001, 0x80000001, 0x007FFFFF, // subnormals
	0x00800000, 0x80800000, // smallest normal
	0x7F7FFFFF, 0xFF7FFFFF, // +-max
	0x3F800000, 0xBF800000, 0x3DCCCCCD, 0x40490FDB, 0x4B800000, 0x4B7FFFFF,
	0x5F000000, 0x5F7FFFFF, 0x5F800000, 0xDF000000, 0x5EFFFFFF, 0x4F000000, 0x4F800000, // 2^63, just below 2^64, 2^64, -2^63, below 2^63, 2^31, 2^32: integer-type borders
}

var f8Specials = []uint64{
	0x0000000000000000, 0x8000000000000000,
	0x0000000000000001, 0x800FFFFFFFFFFFFF, 0x000FFFFFFFFFFFFF,
	0x0010000000000000, 0x7FEFFFFFFFFFFFFF, 0xFFEFFFFFFFFFFFFF,
	0x3FF0000000000000, 0x3FB999999999999A, 0x400921FB54442D18, 0x4340000000000000, 0x433FFFFFFFFFFFFF,
	0x47EFFFFFE0000000, 0x36A0000000000000, // float32 max and min subnormal as float64
	0x43E0000000000000, 0x43EFFFFFFFFFFFFF, 0x43F0000000000000, 0xC3E0000000000000, 0x43DFFFFFFFFFFFFF, 0x41E0000000000000, 0x41F0000000000000, // 2^63, just below 2^64, 2^64, -2^63, below 2^63, 2^31, 2^32
}

// patternBits draws a w-byte pattern whose bytes are mostly taken from the values that masks, sign extensions, delimiters
// and format codes care about; uniform draws almost never give a wide value with a zero or all-ones half.
func patternBits(t *rapid.T, w int) uint64 {
	var v uint64
	switch rapid.IntRange(0, 3).Draw(t, "patClass") {
	case 3: // a telling two-byte sequence (line ends, doubled delimiters, escapes, UTF-8 pairs) somewhere in random bytes
		v = rapid.Uint64().Draw(t, "patRest")
		if w >= 2 {
			pair := uint64(rapid.SampledFrom([]int{0x0D0A, 0x0A0D, 0x0A0A, 0x2F2F, 0x2E2E, 0x3E2E, 0x2E0A, 0x0000, 0xFFFF, 0x2222, 0x5C22, 0x5C5C, 0xC3A0, 0xC285, 0x2020, 0x3C4C, 0x0100, 0x0001, 0x8000, 0x00FF, 0xFF00}).Draw(t, "patPair"))
			at := uint(8 * rapid.IntRange(0, w-2).Draw(t, "patPairAt"))
			v = v&^(0xFFFF<<at) | pair<<at
		}
	case 0: // magnitude of a random bit length
		bits := rapid.IntRange(0, 8*w).Draw(t, "patBitLen")
		if bits == 0 {
			return 0
		}
		v = rapid.Uint64().Draw(t, "patMag")
		if bits < 64 {
			v &= 1<<uint(bits) - 1
			v |= 1 << uint(bits-1)
		} else {
			v |= 1 << 63
		}
		if rapid.Bool().Draw(t, "patNeg") { // the same magnitude below zero (two's complement in w bytes)
			v = -v
		}
	case 1: // byte by byte from a telling set
		for i := 0; i < w; i++ {
			var b uint64
			switch rapid.IntRange(0, 4).Draw(t, "patByteClass") {
			case 0:
				b = 0x00
			case 1:
				b = 0xFF
			case 2:
				b = 0x80
			case 3:
				b = uint64(rapid.SampledFrom([]int{0x01, 0x7F, 0x22, 0x2E, 0x3C, 0x3E, 0x0A, 0x0D, 0x2F, 0x20, 0x41, 0x21, 0xA5, 0xB1, 0x5C, 0xFE}).Draw(t, "patByteTelling"))
			default:
				b = uint64(rapid.IntRange(0, 255).Draw(t, "patByte"))
			}
			v = v<<8 | b
		}
	default: // one byte repeated, or two alternating
		a := uint64(rapid.IntRange(0, 255).Draw(t, "patA"))
		b := a
		if rapid.Bool().Draw(t, "patAlt") {
			b = uint64(rapid.IntRange(0, 255).Draw(t, "patB"))
		}
		for i := 0; i < w; i++ {
			if i%2 == 0 {
				v = v<<8 | a
			} else {
				v = v<<8 | b
			}
		}
	}
	if w < 8 {
		v &= 1<<uint(8*w) - 1
	}
	return v
}

func genElem(t *rapid.T, kind string) model.Elem {
	boundary := rapid.IntRange(0, 2).Draw(t, "boundary") == 0
	if kind != model.BOOLEAN && rapid.IntRange(0, 4).Draw(t, "patterned") == 4 {
		w := model.Width(kind)
		v := patternBits(t, w)
		switch {
		case model.IsSigned(kind):
			sh := uint(64 - 8*w)
			return model.Elem{I: int64(v<<sh) >> sh}
		case model.IsUnsigned(kind) || kind == model.B:
			return model.Elem{U: v}
		case kind == model.F4:
			b := uint32(v)
			if b&0x7F800000 == 0x7F800000 {
				b &^= 0x00800000
			}
			return model.Elem{F: math.Float64bits(float64(math.Float32frombits(b)))}
		case kind == model.F8:
			if v&0x7FF0000000000000 == 0x7FF0000000000000 {
				v &^= 0x0010000000000000
			}
			return model.Elem{F: v}
		}
	}
	switch {
	case kind == model.BOOLEAN:
		return model.Elem{T: rapid.Bool().Draw(t, "bool")}
	case model.IsSigned(kind):
		lo, hi := intRangeOf(kind)
		if boundary {
			return model.Elem{I: rapid.SampledFrom([]int64{lo, lo + 1, -1, 0, 1, hi - 1, hi, -128, 127, -129, 128, -32768, 32767}).Filter(func(v int64) bool { return v >= lo && v <= hi }).Draw(t, "ib")}
		}
		return model.Elem{I: rapid.Int64Range(lo, hi).Draw(t, "i")}
	case model.IsUnsigned(kind) || kind == model.B:
		hi := uintMaxOf(kind)
		if boundary {
			return model.Elem{U: rapid.SampledFrom([]uint64{0, 1, 2, 127, 128, 255, 256, 65535, 65536, hi - 1, hi, hi >> 1, hi>>1 + 1}).Filter(func(v uint64) bool { return v <= hi }).Draw(t, "ub")}
		}
		return model.Elem{U: rapid.Uint64Range(0, hi).Draw(t, "u")}
	case kind == model.F4:
		switch rapid.IntRange(0, 5).Draw(t, "f4class") {
		case 0:
			b := rapid.SampledFrom(f4Specials).Draw(t, "f4s")
			return model.Elem{F: math.Float64bits(float64(math.Float32frombits(b)))}
		case 1:
			// a float64 that is not float32-exact but inside the F4 range: needs rounding
			b := rapid.Uint64().Draw(t, "f4d")
			exp := 1023 - 126 + b>>52%253 // float32 normal exponents
			bits := b&0x800FFFFFFFFFFFFF | exp<<52
			f := math.Float64frombits(bits)
			if math.Abs(f) > math.MaxFloat32 {
				f = math.Copysign(math.MaxFloat32, f)
			}
			return model.Elem{F: math.Float64bits(f)}
		case 2:
			return model.Elem{F: math.Float64bits(float64(rapid.IntRange(-1000, 1000).Draw(t, "f4i")) / 8)}
		default:
			b := rapid.Uint32().Draw(t, "f4b")
			if b&0x7F800000 == 0x7F800000 {
				b &^= 0x00800000
			}
			return model.Elem{F: math.Float64bits(float64(math.Float32frombits(b)))}
		}
	case kind == model.F8:
		switch rapid.IntRange(0, 4).Draw(t, "f8class") {
		case 0:
			return model.Elem{F: rapid.SampledFrom(f8Specials).Draw(t, "f8s")}
		case 1:
			return model.Elem{F: math.Float64bits(float64(rapid.IntRange(-100000, 100000).Draw(t, "f8i")) / 100)}
		default:
			b := rapid.Uint64().Draw(t, "f8b")
			if b&0x7FF0000000000000 == 0x7FF0000000000000 {
				b &^= 0x0010000000000000
			}
			return model.Elem{F: b}
		}
	}
	panic("genElem " + kind)
}

var asciiTokenLike = []string{"//", "/", "...", "..", ".", "<", ">", "<L", "<A", ">.", "[", "]", "[1]", "[0..1]", "\"", "\"\"", "'", "\\", "\\\"", "\\n", "\\x41",
	"0x", "0x22", "0b1", "0o7", "1e5", "-1", "+1", "1.", ".5", "T", "F", "L", "A", "B", "U1", "BOOLEAN", "S1F1", "S0F0", "W", "[W]", "H->E", "H<-E", "H<->E", "*", "**", "%", "%s", "%d", "%!", " ", "  ", "\t", "\n", "\r\n", "\x00", "\x7f", "a", "ab", "aA", "x[0]", "x[1]", "_", "e"}

const hostileChars = "\"\\/<>.[]'\x00\n\t\r\x7f\x1f *%%d"

// genASCII draws a 7-bit string; every code 0..127 can occur.
func genASCII(t *rapid.T, maxLen int) string {
	n := rapid.IntRange(0, maxLen).Draw(t, "alen")
	style := rapid.IntRange(0, 4).Draw(t, "astyle")
	if style == 4 {
		// content that looks like SML tokens or repeats itself: a search, split, trim or replace meant for the syntax
		// must not hit payload text
		var sb strings.Builder
		k := rapid.IntRange(1, 6).Draw(t, "atoks")
		for i := 0; i < k && sb.Len() < maxLen; i++ {
			tok := rapid.SampledFrom(asciiTokenLike).Draw(t, "atok")
			if rapid.IntRange(0, 3).Draw(t, "arep") == 3 {
				tok = strings.Repeat(tok[:1], rapid.IntRange(2, 5).Draw(t, "arepN"))
			}
			sb.WriteString(tok)
		}
		out := sb.String()
		if len(out) > maxLen {
			out = out[:maxLen]
		}
		return out
	}
	b := make([]byte, n)
	for i := range b {
		switch style {
		case 0:
			b[i] = "abcXYZ019 _-"[rapid.IntRange(0, 11).Draw(t, "ac")]
		case 1:
			b[i] = byte(rapid.IntRange(0, 127).Draw(t, "ac"))
		case 2:
			if i%2 == 0 {
				b[i] = byte(rapid.IntRange(32, 126).Draw(t, "ac"))
			} else {
				b[i] = byte(rapid.SampledFrom([]int{0, 1, 9, 10, 13, 27, 31, 127}).Draw(t, "ac"))
			}
		default:
			b[i] = hostileChars[rapid.IntRange(0, len(hostileChars)-1).Draw(t, "ac")]
		}
	}
	return string(b)
}

// ---------------------------------------------------------------------------
// trees

type treeOpts struct {
	Vars     bool // element variables, ASCII variables, item variables
	Ellipsis bool // ellipses in lists (named the way the SML parser numbers them when SMLNumbering)
	SMLNames bool
	Suffix   bool // [n] suffixes on names
	MaxDepth int
	MaxElems int  // elements per array / children per list (default 6)
	Bulk     bool // allow one boundary-size bulk node
	NoDeep   bool
	ASCIIMax int
	DeepMax  int // cap of the dedicated deep-chain class (default 300 quick / 2000 thorough)
	VarPct   int // probability (percent) that a value position becomes a variable (default 20)
}

type treeGen struct {
	o        treeOpts
	nm       *namer
	ellipses int
	bulkLeft bool
}

// bulkCounts returns element counts that straddle the length-field borders.
func bulkCounts(kind string, thorough bool) []int {
	w := model.Width(kind)
	var out []int
	for _, b := range []int{255, 256, 65535, 65536} {
		for _, d := range []int{-1, 0, 1} {
			n := b/w + d
			if n >= 0 {
				out = append(out, n)
			}
		}
	}
	if thorough {
		out = append(out, model.MaxLen/w, model.MaxLen/w-1)
	}
	return out
}

func genTree(t *rapid.T, o treeOpts, nm *namer) *model.Node {
	if o.MaxDepth == 0 {
		o.MaxDepth = 5
	}
	if o.MaxElems == 0 {
		o.MaxElems = 6
	}
	if o.ASCIIMax == 0 {
		o.ASCIIMax = 12
	}
	if o.VarPct == 0 {
		o.VarPct = 20
	}
	g := &treeGen{o: o, nm: nm}
	if o.Bulk {
		g.bulkLeft = rapid.IntRange(0, 5).Draw(t, "wantBulk") == 5
	}
	if !o.NoDeep && rapid.IntRange(0, 79).Draw(t, "deepChain") == 79 {
		// dedicated deep-chain class
		maxd := 300
		if isThorough() && rapid.IntRange(0, 199).Draw(t, "veryDeep") == 199 {
			// the library is quadratic in nesting depth (a 2000-deep chain costs tens of seconds): rare even in thorough
			maxd = 2000
		}
		if o.DeepMax > 0 {
			maxd = o.DeepMax
		}
		d := rapid.IntRange(10, maxd).Draw(t, "chainDepth")
		if d == maxd {
			stats.exclude("deep-chain-depth-cap-binds")
		}
		leaf := g.leaf(t)
		for i := 0; i < d; i++ {
			leaf = &model.Node{Kind: model.L, Children: []model.Child{{Node: leaf}}}
		}
		return leaf
	}
	if o.Vars && rapid.IntRange(0, 39).Draw(t, "nestedVars") == 39 {
		// variables below many list levels (5-24): every level holds the nested list and, sometimes, a sibling
		// item or an item variable of its own
		d := rapid.IntRange(5, 24).Draw(t, "varDepth")
		cur := &model.Node{Kind: model.L, Children: []model.Child{{Var: nm.draw(t)}, {Node: g.leaf(t)}}}
		for i := 0; i < d; i++ {
			lvl := &model.Node{Kind: model.L}
			switch rapid.IntRange(0, 3).Draw(t, "levelShape") {
			case 0:
				lvl.Children = []model.Child{{Node: cur}}
			case 1:
				lvl.Children = []model.Child{{Node: g.leaf(t)}, {Node: cur}}
			case 2:
				lvl.Children = []model.Child{{Node: cur}, {Var: nm.draw(t)}}
			default:
				lvl.Children = []model.Child{{Node: cur}, {Node: g.leaf(t)}}
			}
			cur = lvl
		}
		return cur
	}
	if o.Ellipsis && rapid.IntRange(0, 39).Draw(t, "manyEllipses") == 39 {
		// more than ten ellipses in one tree: their numbering gets a second digit
		k := rapid.IntRange(11, 24).Draw(t, "ellipsisLists")
		root := &model.Node{Kind: model.L}
		for i := 0; i < k; i++ {
			ch := &model.Node{Kind: model.L, Children: []model.Child{{Node: g.leaf(t)}, {Var: "..."}}}
			if rapid.IntRange(0, 3).Draw(t, "afterEllipsis") == 3 {
				ch.Children = append(ch.Children, model.Child{Node: g.leaf(t)})
			}
			root.Children = append(root.Children, model.Child{Node: ch})
		}
		return root
	}
	return g.node(t, 1, 14)
}

func (g *treeGen) leaf(t *rapid.T) *model.Node {
	kinds := append([]string{model.A}, model.ArrayKinds...)
	kind := rapid.SampledFrom(kinds).Draw(t, "kind")
	if g.bulkLeft && rapid.IntRange(0, 2).Draw(t, "bulkHere") == 2 {
		g.bulkLeft = false
		cs := bulkCounts(kind, isThorough() && rapid.IntRange(0, 30).Draw(t, "hugeBulk") == 30)
		n := rapid.SampledFrom(cs).Draw(t, "bulkN")
		return &model.Node{Kind: kind, Bulk: &model.Bulk{N: n, Seed: rapid.Uint64().Draw(t, "bulkSeed")}}
	}
	if g.o.Bulk && rapid.IntRange(0, 11).Draw(t, "mediumHere") == 11 {
		// medium sizes between the handful of elements of ordinary leaves and the length-field borders: powers of two and
		// their neighbours (sizes of fixed buffers and of fast paths), or any count up to 300
		n := rapid.IntRange(7, 300).Draw(t, "mediumN")
		if rapid.Bool().Draw(t, "mediumPow2") {
			n = (1 << rapid.IntRange(3, 8).Draw(t, "mediumExp")) + rapid.IntRange(-2, 2).Draw(t, "mediumDelta")
		}
		stats.labelOnly("medium-size-leaf", 1)
		return &model.Node{Kind: kind, Bulk: &model.Bulk{N: n, Seed: rapid.Uint64().Draw(t, "bulkSeed")}}
	}
	if kind == model.A {
		if g.o.Vars && rapid.IntRange(1, 100).Draw(t, "avar") > 100-g.o.VarPct {
			av := &model.AVar{Name: g.nm.draw(t), Min: 0, Max: -1}
			switch rapid.IntRange(0, 5).Draw(t, "abounds") {
			case 5:
				// an upper bound around the widths a length could be squeezed into (no limit is documented for it)
				av.Min = rapid.IntRange(0, 3).Draw(t, "amin")
				av.Max = rapid.SampledFrom([]int{255, 256, 65535, 65536, 16777215, 16777216, 16777217, 1<<31 - 1, 1 << 31, 1<<32 - 1, 1 << 32, 1 << 53, 1<<63 - 1}).Draw(t, "amaxBig")
			case 1:
				av.Min = rapid.IntRange(0, 9).Draw(t, "amin")
				av.Max = av.Min
			case 2:
				av.Min = rapid.IntRange(1, 9).Draw(t, "amin")
			case 3:
				av.Max = rapid.IntRange(0, 9).Draw(t, "amax")
			case 4:
				av.Min = rapid.IntRange(0, 9).Draw(t, "amin")
				av.Max = av.Min + rapid.IntRange(1, 20).Draw(t, "aspan")
			}
			return &model.Node{Kind: model.A, AVar: av}
		}
		return &model.Node{Kind: model.A, Str: genASCII(t, g.o.ASCIIMax)}
	}
	n := rapid.IntRange(0, g.o.MaxElems).Draw(t, "nelems")
	if g.o.Vars && rapid.IntRange(0, 39).Draw(t, "manyElems") == 39 {
		n = rapid.IntRange(15, 40).Draw(t, "manyN") // one item with many positions (and so possibly many variables)
	}
	node := &model.Node{Kind: kind, Elems: make([]model.Elem, n)}
	for i := range node.Elems {
		if g.o.Vars && rapid.IntRange(1, 100).Draw(t, "isvar") > 100-g.o.VarPct {
			node.Elems[i] = model.Elem{Var: g.nm.draw(t)}
		} else {
			node.Elems[i] = genElem(t, kind)
		}
	}
	if n >= 2 && kind != model.BOOLEAN && rapid.IntRange(0, 5).Draw(t, "related") == 5 {
		// two values of one item in a relation: equal, opposite sign, first equal to last, neighbours by one
		i := rapid.IntRange(0, n-2).Draw(t, "relI")
		j := rapid.IntRange(i+1, n-1).Draw(t, "relJ")
		rel := rapid.IntRange(0, 3).Draw(t, "relKind")
		if rel == 3 {
			i, j = 0, n-1
		}
		a := node.Elems[i]
		if a.Var == "" && node.Elems[j].Var == "" {
			b := a
			switch {
			case rel == 1 && model.IsSigned(kind) && a.I != math.MinInt64:
				if lo, _ := intRangeOf(kind); -a.I >= lo && a.I != lo {
					b.I = -a.I
				}
			case rel == 1 && (kind == model.F4 || kind == model.F8):
				b.F = a.F ^ 1<<63
			case rel == 2 && model.IsSigned(kind):
				if _, hi := intRangeOf(kind); a.I < hi {
					b.I = a.I + 1
				}
			case rel == 2 && (model.IsUnsigned(kind) || kind == model.B):
				if a.U < uintMaxOf(kind) {
					b.U = a.U + 1
				}
			}
			node.Elems[j] = b
			stats.labelOnly("related-values", 1)
		}
	}
	return node
}

func (g *treeGen) node(t *rapid.T, depth, budget int) *model.Node {
	if depth >= g.o.MaxDepth || budget <= 1 || rapid.IntRange(0, 9).Draw(t, "isLeaf") < 4 {
		return g.leaf(t)
	}
	if g.bulkLeft && !g.o.Vars && rapid.IntRange(0, 12).Draw(t, "bulkList") == 12 {
		g.bulkLeft = false
		n := rapid.SampledFrom([]int{254, 255, 256, 257, 65535, 65536}).Draw(t, "bulkListN")
		return &model.Node{Kind: model.L, Bulk: &model.Bulk{N: n, Seed: rapid.Uint64().Draw(t, "bulkSeed")}}
	}
	n := rapid.IntRange(0, g.o.MaxElems).Draw(t, "nchildren")
	if n > budget {
		n = budget
	}
	node := &model.Node{Kind: model.L}
	ellipsisAt := -1
	if g.o.Ellipsis && n >= 1 && rapid.IntRange(0, 2).Draw(t, "hasEllipsis") == 2 {
		ellipsisAt = rapid.IntRange(1, n).Draw(t, "ellipsisAt")
	}
	per := budget / (n + 1)
	for i := 0; i <= n; i++ {
		if i == ellipsisAt {
			// name assigned afterwards (print order numbering)
			node.Children = append(node.Children, model.Child{Var: "..."})
			continue
		}
		if i == n {
			break
		}
		if g.o.Vars && rapid.IntRange(1, 100).Draw(t, "itemVar") > 100-g.o.VarPct*2/3 {
			node.Children = append(node.Children, model.Child{Var: g.nm.draw(t)})
		} else {
			node.Children = append(node.Children, model.Child{Node: g.node(t, depth+1, per)})
		}
	}
	return node
}

// numberEllipses names the ellipses of a tree "...[k]" in print order, the way
// the SML parser does.
func numberEllipses(n *model.Node) int {
	k := 0
	var walk func(*model.Node)
	walk = func(x *model.Node) {
		if x.Kind != model.L || x.Bulk != nil {
			return
		}
		for i, c := range x.Children {
			if c.Node != nil {
				walk(c.Node)
			} else if model.IsEllipsisName(c.Var) {
				x.Children[i].Var = fmt.Sprintf("...[%d]", k)
				k++
			}
		}
	}
	walk(n)
	return k
}

// ---------------------------------------------------------------------------
// headers

var reHeaderToken = regexp.MustCompile(`^([Ss]\d+[Ff]\d+|[Ww]|\[[Ww]\]|[Hh](->|<->|<-)[Ee])`)

// readsAsOneName is the independent statement of "text that the header lexer
// reads as one message name".
func readsAsOneName(s string) bool {
	if s == "" || !utf8.ValidString(s) {
		return false
	}
	for _, r := range s {
		if unicode.IsSpace(r) {
			return false
		}
	}
	if strings.Contains(s, "//") {
		return false
	}
	if s[0] == '.' || s[0] == '<' {
		return false
	}
	return !reHeaderToken.MatchString(s)
}

var nameAlphabets = []string{
	"abcdefghijklmnopqrstuvwxyzABCDEFGHIJKLMNOPQRSTUVXYZ0123456789_?!-+*=:;,()[]{}<>./\\\"'#@$%^&|~`",
	"äöüßéèñçÅØ¡¿×÷",
	"АБВГДежзий",
	"測試消息名前",
	"😀🚀✓→≤",
	"ıſŉǰΐİẞⱥⱦȺ",                                       // case mapping changes the UTF-8 length of these
	"\ufeff\u200b\u00ad\u2060\u200d\u034f\u061c\ufffd", // invisible / ignorable characters: none of them is white space, all are part of a name
}

func genMsgName(t *rapid.T) string {
	if rapid.IntRange(0, 3).Draw(t, "noName") == 0 {
		return ""
	}
	n := rapid.IntRange(1, 10).Draw(t, "nameLen")
	var sb strings.Builder
	for i := 0; i < n; i++ {
		alpha := []rune(nameAlphabets[rapid.SampledFrom([]int{0, 0, 0, 0, 1, 2, 3, 4, 5, 6}).Draw(t, "alpha")])
		sb.WriteRune(alpha[rapid.IntRange(0, len(alpha)-1).Draw(t, "nc")])
	}
	s := sb.String()
	if !readsAsOneName(s) {
		stats.exclude("message-name-not-one-token")
		s = "n" + strings.NewReplacer("//", "/_").Replace(s)
		if !readsAsOneName(s) {
			return "Name"
		}
	}
	return s
}

var sessionBoundaries = []int{0, 1, 255, 256, 32767, 32768, 65534, 65535}

// genHdr draws a header. complete: wait bit decided and session id set.
func genHdr(t *rapid.T, complete bool) Hdr {
	h := Hdr{
		Stream:   rapid.IntRange(0, 127).Draw(t, "stream"),
		Function: rapid.IntRange(0, 255).Draw(t, "function"),
		Dir:      rapid.SampledFrom([]string{"H->E", "H<-E", "H<->E"}).Draw(t, "dir"),
		Name:     genMsgName(t),
	}
	if rapid.IntRange(0, 7).Draw(t, "hdrPattern") == 7 {
		// special combinations of the codes: both zero, equal, function 0 / 1 / 255, stream 0 / 127
		p := rapid.SampledFrom([][2]int{{0, 0}, {0, 1}, {1, 0}, {127, 255}, {127, 0}, {0, 255}, {64, 64}, {1, 1}, {10, 10}, {127, 127}, {6, 12}, {9, 0}, {34, 46}, {60, 62}}).Draw(t, "hdrPair")
		h.Stream, h.Function = p[0], p[1]
	}
	wmax := 2
	if complete {
		wmax = 1
	}
	h.Wait = rapid.IntRange(0, wmax).Draw(t, "wait")
	if h.Wait == 1 && h.Function%2 == 0 {
		h.Wait = 0
	}
	if rapid.Bool().Draw(t, "sessBoundary") {
		h.Session = rapid.SampledFrom(sessionBoundaries).Draw(t, "session")
	} else {
		h.Session = rapid.IntRange(0, 65535).Draw(t, "session")
	}
	if rapid.IntRange(0, 5).Draw(t, "sessPattern") == 5 {
		// a zero / all-ones / sign-bit half, equal halves
		hi := rapid.SampledFrom([]int{0x00, 0xFF, 0x80, 0x7F, 0x01, 0x2E, 0x0A}).Draw(t, "sessHalf")
		lo := rapid.IntRange(0, 255).Draw(t, "sessOther")
		switch rapid.IntRange(0, 2).Draw(t, "sessWhich") {
		case 0:
			h.Session = hi<<8 | lo
		case 1:
			h.Session = lo<<8 | hi
		default:
			h.Session = lo<<8 | lo
		}
	}
	if !complete && rapid.IntRange(0, 2).Draw(t, "noSession") == 2 {
		h.Session = -1
	}
	h.System = make([]byte, 4)
	if rapid.IntRange(0, 5).Draw(t, "sysPattern") == 5 {
		v := patternBits(t, 4)
		h.System = []byte{byte(v >> 24), byte(v >> 16), byte(v >> 8), byte(v)}
	} else if rapid.Bool().Draw(t, "sysBoundary") {
		copy(h.System, rapid.SampledFrom([][]byte{{0, 0, 0, 0}, {255, 255, 255, 255}, {0, 0, 0, 1}, {128, 0, 0, 0}, {1, 2, 3, 4}}).Draw(t, "system"))
	} else {
		v := rapid.Uint32().Draw(t, "system")
		h.System = []byte{byte(v >> 24), byte(v >> 16), byte(v >> 8), byte(v)}
	}
	return h
}

// treeShape summarises a variable-free tree for labels / non-triviality.
type treeShape struct {
	Nodes, Elems, Depth int
	Kinds               map[string]bool
	MaxLenBytes         int // largest number of length bytes any node needs
	NonEmptyBinary      bool
}

func shapeOf(n *model.Node) treeShape {
	s := treeShape{Kinds: map[string]bool{}, MaxLenBytes: 1}
	if n == nil {
		return s
	}
	s.Depth = n.Depth()
	n.Walk(func(x *model.Node) {
		s.Nodes++
		s.Kinds[x.Kind] = true
		c := x.Count()
		if c > 0 {
			s.Elems += c
			if x.Kind == model.B {
				s.NonEmptyBinary = true
			}
			if lb := model.MinLengthBytes(c * model.Width(x.Kind)); lb > s.MaxLenBytes {
				s.MaxLenBytes = lb
			}
		}
	})
	return s
}
