package props

import (
	"fmt"
	"strconv"
	"testing"

	"verifharness/model"

	"github.com/wolimst/lib-secs2-hsms-go/pkg/ast"
	"pgregory.net/rapid"
)

// C16 - Variables() matches the printed order; encodable iff no variables;
// Size() is the number of printed elements.

type c16Case struct {
	Tree    *model.Node    `json:"tree"`
	Variant int            `json:"variant"`
	Counts  map[string]int `json:"counts,omitempty"` // ellipsis fills applied before observing (post-expansion trees)
	Hdr     *Hdr           `json:"hdr,omitempty"`
	// Collide: the names were chosen so that two positions may carry the same name (directly, or after an
	// expansion appends [j] suffixes). Such a tree / fill must be refused; if it is not, the observers are
	// checked as usual and report the duplicate.
	Collide bool `json:"collide,omitempty"`
	// Rename: after the steps above, variable number Rename[0]-1 of the tree (in listing order) is filled with the
	// NAME of variable number Rename[1]-1 (a string value renames a variable). If the two differ the result would
	// carry one name twice: it must be refused, and if it is not, the observers report the duplicate.
	Rename [2]int `json:"rename,omitempty"`
}

func init() { registerReplay("c16", checkC16) }

// observersAgree checks the three observers of one item against each other.
func observersAgree(it ast.ItemNode, what string) (vars int, err error) {
	printed := itemString(it)
	pn, rerr := model.ReadItem(printed)
	if rerr != nil {
		return 0, fmt.Errorf("%s: printed form is unreadable: %v\n%s", what, rerr, clipStr(printed, 300))
	}
	names := pn.Names()
	got := it.Variables()
	norm := make([]string, len(got))
	seen := map[string]bool{}
	for i, v := range got {
		if seen[v] {
			return 0, fmt.Errorf("%s: Variables() lists %q twice: %q", what, v, got)
		}
		seen[v] = true
		norm[i] = v
		if model.IsEllipsisName(v) {
			norm[i] = "..."
		}
	}
	if !sameStrings(norm, names) {
		return 0, fmt.Errorf("%s: Variables() = %q but the printed form shows %q\n%s", what, got, names, clipStr(printed, 300))
	}
	b := it.ToBytes()
	if (len(b) > 0) != (len(got) == 0) {
		return 0, fmt.Errorf("%s: %d variables but ToBytes() has %d bytes\n%s", what, len(got), len(b), clipStr(printed, 300))
	}
	if it.Size() != pn.PrintedCount() {
		return 0, fmt.Errorf("%s: Size() = %d but %d elements are printed\n%s", what, it.Size(), pn.PrintedCount(), clipStr(printed, 300))
	}
	if pn.HasSize && pn.Kind != model.A {
		if n, cerr := strconv.Atoi(pn.SizeText); cerr != nil || n != it.Size() {
			return 0, fmt.Errorf("%s: printed size [%s] but Size() = %d", what, pn.SizeText, it.Size())
		}
	}
	return len(got), nil
}

func checkC16(c c16Case) (ci caseInfo, err error) {
	var root ast.ItemNode
	if c.Collide {
		ci.label("collision-prone-names")
		if p, _ := try(func() { root = buildItem(c.Tree, c.Variant) }); p {
			ci.label("collision:refused-at-construction")
			ci.Nontrivial = true
			return ci, nil
		}
	} else {
		root = buildItem(c.Tree, c.Variant)
	}
	if len(c.Counts) > 0 {
		fill := map[string]interface{}{}
		for k, v := range c.Counts {
			fill[k] = v
		}
		if c.Collide {
			if p, _ := try(func() { root = root.FillVariables(fill) }); p {
				ci.label("collision:refused-at-expansion")
				ci.Nontrivial = true
				return ci, nil
			}
		} else {
			root = root.FillVariables(fill)
		}
		ci.label("post-expansion")
	}
	if c.Collide {
		// not refused: then no name may occur twice (checked by observersAgree below); sub-items are skipped
		_, err := observersAgree(root, "root item (collision-prone names, not refused)")
		if err == nil {
			ci.label("collision:no-actual-duplicate")
		}
		return ci, err
	}
	nvars, err := observersAgree(root, "root item")
	if err != nil {
		return ci, err
	}
	if vars := root.Variables(); c.Rename[0] > 0 && len(vars) >= 2 {
		from, to := vars[(c.Rename[0]-1)%len(vars)], vars[(c.Rename[1]-1)%len(vars)]
		if !model.IsEllipsisName(from) && !model.IsEllipsisName(to) {
			var renamed ast.ItemNode
			if p, _ := try(func() { renamed = root.FillVariables(map[string]interface{}{from: to}) }); p {
				ci.label("rename-onto-existing-name:refused")
			} else {
				// accepted: legitimate when the string was taken as a value (an ASCII variable) or from == to
				ci.label("rename-onto-existing-name:accepted")
				if _, err := observersAgree(renamed, fmt.Sprintf("item after filling %q with the string %q", from, to)); err != nil {
					return ci, err
				}
			}
		}
	}
	// every sub-item of the template, built on its own
	nodesWithVars := 0
	var ferr error
	c.Tree.Walk(func(n *model.Node) {
		if ferr != nil {
			return
		}
		own := false
		switch n.Kind {
		case model.L:
			for _, ch := range n.Children {
				if ch.Node == nil {
					own = true
				}
			}
		case model.A:
			own = n.AVar != nil
		default:
			for _, e := range n.Elems {
				if e.Var != "" {
					own = true
				}
			}
		}
		if own {
			nodesWithVars++
		}
		if n != c.Tree {
			if _, e := observersAgree(buildItem(n, c.Variant), "sub-item "+n.Brief()); e != nil {
				ferr = e
			}
		}
	})
	if ferr != nil {
		return ci, ferr
	}
	ci.Nontrivial = nvars >= 2 && nodesWithVars >= 2
	ci.label("vars>=2:%v", nvars >= 2)
	if c.Hdr != nil {
		h := *c.Hdr
		msg := buildMessage(h, root, 0)
		if !sameStrings(msg.Variables(), root.Variables()) {
			return ci, fmt.Errorf("message Variables() %q differ from its item's %q", msg.Variables(), root.Variables())
		}
		complete := nvars == 0 && h.Wait != 2 && h.Session != -1
		if (len(msg.ToBytes()) > 0) != complete {
			return ci, fmt.Errorf("message %q: complete=%v (vars %d, wait %s, session %d) but ToBytes() has %d bytes", msg.Header(), complete, nvars, h.waitString(), h.Session, len(msg.ToBytes()))
		}
		pn, rerr := model.ReadItem(itemPart(msg.String()[:len(msg.String())-2]))
		if rerr != nil {
			return ci, fmt.Errorf("message text unreadable: %v\n%s", rerr, clipStr(msg.String(), 300))
		}
		norm := []string{}
		for _, v := range msg.Variables() {
			if model.IsEllipsisName(v) {
				v = "..."
			}
			norm = append(norm, v)
		}
		if !sameStrings(norm, pn.Names()) {
			return ci, fmt.Errorf("message Variables() %q but its printed form shows %q", msg.Variables(), pn.Names())
		}
		ci.label("message")
	}
	return ci, nil
}

func genC16(t *rapid.T) c16Case {
	c := c16Case{Variant: rapid.IntRange(0, 11).Draw(t, "variant")}
	expand := rapid.Bool().Draw(t, "expand")
	// expansion appends [j] suffixes: templates that get expanded use plain names so that no generated name can collide
	c.Tree = genTree(t, treeOpts{Vars: true, Ellipsis: true, Suffix: !expand, NoDeep: true, VarPct: 40}, newNamer(true, !expand)) // names that cannot be mistaken for T, F or a type keyword
	n := numberEllipses(c.Tree)
	if n > 0 && expand {
		c.Counts = map[string]int{}
		for i := 0; i < n; i++ {
			if rapid.IntRange(0, 2).Draw(t, "fillThis") > 0 {
				c.Counts[fmt.Sprintf("...[%d]", i)] = rapid.IntRange(0, 3).Draw(t, "count")
			}
		}
	}
	if rapid.IntRange(0, 2).Draw(t, "asMessage") == 2 {
		h := genHdr(t, false)
		c.Hdr = &h
	}
	if rapid.IntRange(0, 3).Draw(t, "rename") == 3 {
		c.Rename = [2]int{rapid.IntRange(1, 12).Draw(t, "renameFrom"), rapid.IntRange(1, 12).Draw(t, "renameTo")}
	}
	if rapid.IntRange(0, 4).Draw(t, "collide") == 4 {
		// rename variables from a tiny pool, so that equal names (or names that become equal once an expansion
		// appends its suffix) land in different nodes of the tree, also across nested-list boundaries
		c.Collide = true
		c.Hdr = nil
		pool := []string{"a", "a", "b", "a[0]", "a[1]", "a[1]", "a[0][0]", "b[0]"}
		c.Tree.Walk(func(x *model.Node) {
			if x.Bulk != nil {
				return
			}
			for i := range x.Elems {
				if x.Elems[i].Var != "" {
					x.Elems[i].Var = rapid.SampledFrom(pool).Draw(t, "poolName")
				}
			}
			if x.AVar != nil {
				x.AVar.Name = rapid.SampledFrom(pool).Draw(t, "poolName")
			}
			for i := range x.Children {
				if x.Children[i].Node == nil && !model.IsEllipsisName(x.Children[i].Var) {
					x.Children[i].Var = rapid.SampledFrom(pool).Draw(t, "poolName")
				}
			}
		})
	}
	return c
}

func TestC16(t *testing.T) {
	rapidProp(t, "C16", "c16", genC16, checkC16)
}
