package props

import (
	"fmt"
	"math"
	"math/big"
	"strconv"
	"strings"
	"unicode/utf8"

	"verifharness/model"

	"pgregory.net/rapid"
)

// rapidSpeller chooses among the documented spellings of SML literals and
// keywords; every choice is a rapid draw, so cases shrink and replay.
type rapidSpeller struct {
	t       *rapid.T
	sizes   bool // emit size declarations consistent with the item
	labels  map[string]bool
	noSplit bool
}

func (s *rapidSpeller) note(l string) {
	if s.labels != nil {
		s.labels[l] = true
	}
}

func randomCase(t *rapid.T, s string) string {
	mode := rapid.IntRange(0, 3).Draw(t, "caseMode")
	switch mode {
	case 0:
		return s
	case 1:
		return strings.ToLower(s)
	case 2:
		return strings.ToUpper(s)
	}
	b := []byte(s)
	for i := range b {
		if rapid.Bool().Draw(t, "flip") {
			if b[i] >= 'a' && b[i] <= 'z' {
				b[i] -= 32
			} else if b[i] >= 'A' && b[i] <= 'Z' {
				b[i] += 32
			}
		}
	}
	return string(b)
}

func (s *rapidSpeller) StreamFunction(st, f int) string {
	return randomCase(s.t, fmt.Sprintf("S%dF%d", st, f))
}
func (s *rapidSpeller) WaitBit(optional bool) string {
	if optional {
		return randomCase(s.t, "[W]")
	}
	return randomCase(s.t, "W")
}
func (s *rapidSpeller) Direction(d string) string { return randomCase(s.t, d) }
func (s *rapidSpeller) TypeName(kind string) string {
	return randomCase(s.t, kind)
}

// spellUnsigned writes a non-negative integer in one of the documented bases.
func (s *rapidSpeller) spellUnsigned(v uint64) string {
	switch rapid.IntRange(0, 6).Draw(s.t, "base") {
	case 0, 1, 2:
		s.note("spell:decimal")
		return strconv.FormatUint(v, 10)
	case 3:
		s.note("spell:hex")
		h := strconv.FormatUint(v, 16)
		if rapid.Bool().Draw(s.t, "hexUpper") {
			h = strings.ToUpper(h)
		}
		return rapid.SampledFrom([]string{"0x", "0X"}).Draw(s.t, "hexPrefix") + h
	case 4:
		s.note("spell:octal")
		return rapid.SampledFrom([]string{"0o", "0O"}).Draw(s.t, "octPrefix") + strconv.FormatUint(v, 8)
	default:
		s.note("spell:binary")
		return rapid.SampledFrom([]string{"0b", "0B"}).Draw(s.t, "binPrefix") + strconv.FormatUint(v, 2)
	}
}

func (s *rapidSpeller) Int(kind string, v int64) string {
	if v < 0 {
		return "-" + s.spellUnsigned(uint64(-(v+1))+1)
	}
	sign := ""
	if rapid.IntRange(0, 5).Draw(s.t, "plusSign") == 5 {
		sign = "+"
		s.note("spell:plus-sign")
	}
	return sign + s.spellUnsigned(uint64(v))
}

func (s *rapidSpeller) Uint(kind string, v uint64) string { return s.spellUnsigned(v) }

func (s *rapidSpeller) Float(kind string, v float64) string {
	bits := 64
	if kind == model.F4 {
		bits = 32
		v = float64(float32(v))
	}
	var out string
	switch rapid.IntRange(0, 5).Draw(s.t, "floatForm") {
	case 0, 1:
		out = strconv.FormatFloat(v, 'g', -1, bits)
		s.note("spell:float-shortest")
	case 2:
		out = strconv.FormatFloat(v, 'e', -1, bits)
		s.note("spell:float-e")
	case 3:
		if math.Abs(v) < 1e15 && (math.Abs(v) > 1e-9 || v == 0) {
			out = strconv.FormatFloat(v, 'f', -1, bits)
			s.note("spell:float-f")
		} else {
			out = strconv.FormatFloat(v, 'e', 20, 64)
			s.note("spell:float-e20")
		}
	case 4:
		// more digits than needed, written from the exact float64 value
		out = strconv.FormatFloat(v, 'e', 25, 64)
		s.note("spell:float-e25")
	default:
		if v == math.Trunc(v) && math.Abs(v) < 1e15 {
			out = strconv.FormatFloat(v, 'f', 0, 64)
			s.note("spell:float-integer-looking")
		} else {
			out = strconv.FormatFloat(v, 'g', -1, bits)
		}
	}
	// independent of strconv: the literal, read as an exact rational with math/big and rounded to the
	// nearest value of the width, must be the intended value; otherwise fall back to the shortest form
	if v != 0 {
		ok := false
		if r, good := new(big.Rat).SetString(out); good {
			if bits == 32 {
				f, _ := r.Float32()
				ok = f == float32(v)
			} else {
				f, _ := r.Float64()
				ok = f == v
			}
		}
		if !ok {
			stats.exclude("speller-literal-did-not-denote-the-value(fallback to shortest form)")
			out = strconv.FormatFloat(v, 'g', -1, bits)
		}
	}
	if rapid.Bool().Draw(s.t, "expUpper") {
		out = strings.Replace(out, "e", "E", 1)
	}
	if rapid.IntRange(0, 3).Draw(s.t, "expPlusDrop") == 3 {
		out = strings.Replace(strings.Replace(out, "e+", "e", 1), "E+", "E", 1)
	}
	return out
}

func (s *rapidSpeller) Bool(v bool) string {
	if v {
		return rapid.SampledFrom([]string{"T", "t"}).Draw(s.t, "tSpell")
	}
	return rapid.SampledFrom([]string{"F", "f"}).Draw(s.t, "fSpell")
}

// ASCII: quoted runs of printable characters (any printable 7-bit character
// except the double quote) and character codes in any base.
func (s *rapidSpeller) ASCII(str string) []model.Tok {
	var out []model.Tok
	run := []byte{}
	flush := func() {
		if len(run) > 0 {
			out = append(out, model.Tok{Text: `"` + string(run) + `"`, Kind: "str"})
			run = run[:0]
		}
	}
	empty := func() {
		// an empty quoted run: one more token, no character
		if !s.noSplit && rapid.IntRange(0, 15).Draw(s.t, "emptyRun") == 15 {
			flush()
			for k := rapid.IntRange(1, 3).Draw(s.t, "emptyRuns"); k > 0; k-- {
				out = append(out, model.Tok{Text: `""`, Kind: "str"})
			}
			s.note("spell:empty-run")
		}
	}
	for i := 0; i < len(str); i++ {
		empty()
		c := str[i]
		printable := c >= 32 && c < 127 && c != '"'
		asCode := !printable || rapid.IntRange(0, 9).Draw(s.t, "asCode") == 9
		if asCode {
			flush()
			out = append(out, model.Tok{Text: s.spellUnsigned(uint64(c)), Kind: "num"})
			s.note("spell:ascii-code")
			continue
		}
		if c == '\\' {
			s.note("spell:backslash-in-quotes")
		}
		run = append(run, c)
		if !s.noSplit && rapid.IntRange(0, 7).Draw(s.t, "splitRun") == 7 {
			flush()
			s.note("spell:split-run")
		}
	}
	empty()
	flush()
	return out
}

func (s *rapidSpeller) sizeFor(n int, allowNone bool) string {
	if !s.sizes {
		return ""
	}
	switch rapid.IntRange(0, 5).Draw(s.t, "sizeForm") {
	case 0:
		if allowNone {
			return ""
		}
		return fmt.Sprintf("[%d]", n)
	case 1:
		s.note("size:exact")
		return fmt.Sprintf("[%d]", n)
	case 2:
		s.note("size:range")
		lo := n - rapid.IntRange(0, 2).Draw(s.t, "below")
		if lo < 0 {
			lo = 0
		}
		return fmt.Sprintf("[%d..%d]", lo, n+rapid.IntRange(0, 2).Draw(s.t, "above"))
	case 3:
		s.note("size:lower-only")
		lo := n - rapid.IntRange(0, 2).Draw(s.t, "below")
		if lo < 0 {
			lo = 0
		}
		return fmt.Sprintf("[%d..]", lo)
	case 4:
		s.note("size:upper-only")
		return fmt.Sprintf("[..%d]", n+rapid.IntRange(0, 2).Draw(s.t, "above"))
	}
	return ""
}

func (s *rapidSpeller) AVarSize(min, max int) string {
	switch {
	case min == 0 && max == -1:
		return ""
	case min == max:
		if rapid.Bool().Draw(s.t, "avarExactAsRange") {
			return fmt.Sprintf("[%d..%d]", min, max)
		}
		return fmt.Sprintf("[%d]", min)
	case max == -1:
		return fmt.Sprintf("[%d..]", min)
	case min == 0:
		if rapid.Bool().Draw(s.t, "avarUpperOnly") {
			return fmt.Sprintf("[..%d]", max)
		}
		return fmt.Sprintf("[0..%d]", max)
	}
	return fmt.Sprintf("[%d..%d]", min, max)
}

func (s *rapidSpeller) ListSize(n int, determined bool) string { return s.sizeFor(n, true) }
func (s *rapidSpeller) ArraySize(kind string, n int) string    { return s.sizeFor(n, true) }

// ---------------------------------------------------------------------------
// layouts (C08): separators, comments, indentation

// layoutSpec is a rapid-drawn description of how tokens are laid out.
type layoutSpec struct {
	Seps     []string `json:"seps"`     // separator before token i (i >= 1), and a trailing one
	Comments []string `json:"comments"` // comment text inserted at the line end inside separator i ("" = none)
	// Inner[i], when non-empty, is the text of size token i re-spelled with blanks / line breaks inside its
	// brackets (the lexer allows them there)
	Inner []string `json:"inner,omitempty"`
	// OpenEnd: the text ends right after the last comment, without the line break that normally follows it
	OpenEnd bool `json:"open_end,omitempty"`
	// Glue[i]: comment i follows the token before it directly, with no blank in between
	Glue []bool `json:"glue,omitempty"`
}

// respellSize inserts whitespace inside the brackets of a size token: after '[', around '..', before ']'.
func respellSize(t *rapid.T, txt string, comments bool) string {
	ws := func() string {
		w := rapid.SampledFrom([]string{"", "", " ", "\n", "\t", "\r\n", " \n "}).Draw(t, "innerWS")
		if i := strings.Index(w, "\n"); i >= 0 && comments && rapid.IntRange(0, 3).Draw(t, "innerComment") == 3 {
			// a comment at the end of a line that lies inside the brackets
			w = w[:i] + " //" + genComment(t) + w[i:]
			if rapid.IntRange(0, 2).Draw(t, "secondCommentLine") == 2 {
				// a second comment line in the same gap
				w += " // " + genComment(t) + "\n"
			}
		}
		return w
	}
	if len(txt) < 2 || txt[0] != '[' || txt[len(txt)-1] != ']' {
		return txt
	}
	body := txt[1 : len(txt)-1]
	if i := strings.Index(body, ".."); i >= 0 {
		lo, hi := body[:i], body[i+2:]
		out := "[" + ws() + lo
		if lo != "" {
			out += ws()
		}
		out += ".." + ws() + hi
		if hi != "" {
			out += ws()
		}
		return out + "]"
	}
	return "[" + ws() + body + ws() + "]"
}

var commentAlphabets = []string{
	"abc XYZ 019 // <> . \" ' [] W S1F1 H->E",
	"éàüñ ç ß Å",
	"Привет мир",
	"日本語のコメント",
	"😀 🚀 ✓",
	" \u0085 ", // characters whose UTF-8 encoding ends in a byte that looks like a Latin-1 space
	"à … Ġ",    // U+00E0 ends in 0xA0; U+2026 ends in 0xA6; U+0120 ends in 0xA0
	"ıſŉİẞȺ",   // case mapping changes the UTF-8 length of these
}

func genComment(t *rapid.T) string {
	n := rapid.IntRange(0, 12).Draw(t, "commentLen")
	var sb strings.Builder
	for i := 0; i < n; i++ {
		a := []rune(commentAlphabets[rapid.IntRange(0, len(commentAlphabets)-1).Draw(t, "calpha")])
		sb.WriteRune(a[rapid.IntRange(0, len(a)-1).Draw(t, "cch")])
	}
	s := sb.String()
	if rapid.IntRange(0, 3).Draw(t, "hostileEnd") == 3 {
		s += rapid.SampledFrom([]string{"à", "\u0085", " ", "Ġ", "ŕ", "…", " ", "\t", " \t ", "х"}).Draw(t, "cend")
	}
	// a comment ends at the line feed: no LF inside. A bare carriage return is ordinary comment content.
	s = strings.ReplaceAll(s, "\n", " ")
	if rapid.IntRange(0, 5).Draw(t, "crInside") == 5 {
		i := rapid.IntRange(0, len(s)).Draw(t, "crAt")
		for i > 0 && i < len(s) && !utf8.RuneStart(s[i]) {
			i--
		}
		s = s[:i] + "\r" + s[i:] + rapid.SampledFrom([]string{"", "x", "<B 1>", " new text", "注"}).Draw(t, "afterCR")
	}
	return s
}

// needSpace reports whether two adjacent tokens would fuse or change meaning
// without a separator between them.
func needSpace(a, b model.Tok) bool {
	switch {
	case a.Kind == "lt":
		return false // '<' is a complete token by itself
	case b.Kind == "gt":
		return false // '>' ends any token of the message text
	case b.Kind == "lt":
		return a.Kind == "name" // a message name runs up to the next blank
	case b.Kind == "end":
		return !(a.Kind == "gt" || a.Kind == "str")
	case a.Kind == "gt":
		return false
	case a.Kind == "type" && b.Kind == "size":
		return false
	case a.Kind == "size":
		return false
	case b.Kind == "str":
		return false
	}
	return true
}

// genLayout draws a layout. opts[0] (strict) forces a non-empty separator between all tokens and leaves size
// tokens as they are (used for invalid token sequences, where the role of a token depends on the lexer
// state); opts[1] (openEnd) allows the text to end inside a final comment, without a line break.
func genLayout(t *rapid.T, toks []model.Tok, comments bool, opts ...bool) layoutSpec {
	strict := len(opts) > 0 && opts[0]
	openEnd := len(opts) > 1 && opts[1]
	var ls layoutSpec
	for i, tk := range toks {
		if tk.Kind == "size" && !strict && rapid.IntRange(0, 2).Draw(t, "respellSize") == 2 {
			if ls.Inner == nil {
				ls.Inner = make([]string, len(toks))
			}
			ls.Inner[i] = respellSize(t, tk.Text, comments)
		}
	}
	for i := 1; i <= len(toks); i++ {
		var sep string
		must := i < len(toks) && (needSpace(toks[i-1], toks[i]) || strict)
		k := rapid.IntRange(0, 9).Draw(t, "sepKind")
		switch {
		case k <= 3:
			sep = " "
		case k == 4:
			sep = "\t"
		case k == 5:
			sep = "\n"
		case k == 6:
			sep = "\r\n"
		case k == 7:
			sep = "  \n\t "
		case k == 8:
			sep = "\n\n    "
		default:
			sep = ""
		}
		if must && sep == "" {
			sep = " "
		}
		// the header must stay on one line up to the message name... it need not: the header lexer skips line breaks too
		cm := ""
		if comments && rapid.IntRange(0, 5).Draw(t, "hasComment") == 5 {
			cm = genComment(t)
			if cm == "" {
				cm = " "
			}
		}
		if i == len(toks) {
			// after the terminator
			if sep == "" && cm != "" {
				sep = " "
			}
		}
		ls.Seps = append(ls.Seps, sep)
		ls.Comments = append(ls.Comments, cm)
		// the comment may follow its token directly, without a blank ("x//note"), unless that would make "///"
		ls.Glue = append(ls.Glue, cm != "" && !strings.HasSuffix(toks[i-1].Text, "/") && rapid.IntRange(0, 3).Draw(t, "glueComment") == 3)
	}
	if n := len(ls.Comments); openEnd && n > 0 && ls.Comments[n-1] != "" && rapid.Bool().Draw(t, "openEnd") {
		ls.OpenEnd = true
	}
	return ls
}

// render lays tokens out. A comment, when present in separator i, is placed
// right after token i-1 (after one blank) and is followed by a line break and
// then the separator's own whitespace. It returns the text and the byte offset
// of every token.
func render(toks []model.Tok, ls layoutSpec) (string, []int) {
	var sb strings.Builder
	offs := make([]int, len(toks))
	for i, tk := range toks {
		if i > 0 {
			writeSep(&sb, ls, i-1)
		}
		offs[i] = sb.Len()
		if i < len(ls.Inner) && ls.Inner[i] != "" {
			sb.WriteString(ls.Inner[i])
		} else {
			sb.WriteString(tk.Text)
		}
	}
	if len(ls.Seps) >= len(toks) && len(toks) > 0 {
		if ls.OpenEnd && ls.Comments[len(toks)-1] != "" {
			if !ls.glued(len(toks) - 1) {
				sb.WriteByte(' ')
			}
			sb.WriteString("//")
			sb.WriteString(strings.TrimRight(ls.Comments[len(toks)-1], " \t\r"))
		} else {
			writeSep(&sb, ls, len(toks)-1)
		}
	}
	return sb.String(), offs
}

func (ls layoutSpec) glued(i int) bool { return i < len(ls.Glue) && ls.Glue[i] }

func writeSep(sb *strings.Builder, ls layoutSpec, i int) {
	if i >= len(ls.Seps) {
		sb.WriteByte(' ')
		return
	}
	if ls.Comments[i] != "" {
		if !ls.glued(i) {
			sb.WriteByte(' ')
		}
		sb.WriteString("//")
		sb.WriteString(ls.Comments[i])
		sb.WriteString("\n")
	}
	sb.WriteString(ls.Seps[i])
}

// lineCol computes the 1-based line and column (in runes) of a byte offset.
func lineCol(text string, off int) (int, int) {
	line := 1 + strings.Count(text[:off], "\n")
	start := strings.LastIndex(text[:off], "\n") + 1
	col := 1 + len([]rune(text[start:off]))
	return line, col
}
