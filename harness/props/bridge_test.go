package props

import (
	"fmt"
	"math"

	"verifharness/model"

	"github.com/wolimst/lib-secs2-hsms-go/pkg/ast"
)

// try runs f and reports whether it panicked.
func try(f func()) (panicked bool, msg string) {
	defer func() {
		if r := recover(); r != nil {
			panicked = true
			msg = fmt.Sprint(r)
		}
	}()
	f()
	return false, ""
}

// Hdr is the model of a data-message header and of the HSMS completion data.
type Hdr struct {
	Name     string         `json:"name"`
	Stream   int            `json:"stream"`
	Function int            `json:"function"`
	Wait     int            `json:"wait"` // 0 false, 1 true, 2 optional
	Dir      string         `json:"dir"`
	Session  int            `json:"session"` // -1: not set
	System   model.HexBytes `json:"system"`
}

func (h Hdr) waitString() string {
	switch h.Wait {
	case 0:
		return "false"
	case 1:
		return "true"
	}
	return "optional"
}

// goArg converts a model element into a Go argument for the factories.
// variant selects among the Go types the factories document as acceptable.
func goArg(kind string, e model.Elem, variant int) interface{} {
	if e.Var != "" {
		return e.Var
	}
	switch {
	case kind == model.B:
		if variant%4 == 3 {
			return "0b" + fmt.Sprintf("%b", e.U)
		}
		return int(e.U)
	case kind == model.BOOLEAN:
		return e.T
	case model.IsSigned(kind):
		v := e.I
		switch variant % 3 {
		case 1: // narrowest Go type that holds the value
			switch {
			case v >= math.MinInt8 && v <= math.MaxInt8:
				return int8(v)
			case v >= math.MinInt16 && v <= math.MaxInt16:
				return int16(v)
			case v >= math.MinInt32 && v <= math.MaxInt32:
				return int32(v)
			}
			return v
		case 2:
			if v >= 0 {
				switch {
				case v <= math.MaxUint8:
					return uint8(v)
				case v <= math.MaxUint16:
					return uint16(v)
				case v <= math.MaxUint32:
					return uint32(v)
				}
				return uint64(v)
			}
			return int(v)
		}
		return v
	case model.IsUnsigned(kind):
		v := e.U
		switch variant % 3 {
		case 1:
			switch {
			case v <= math.MaxUint8:
				return uint8(v)
			case v <= math.MaxUint16:
				return uint16(v)
			case v <= math.MaxUint32:
				return uint32(v)
			}
			return v
		case 2:
			if v <= math.MaxInt64 {
				switch {
				case v <= math.MaxInt8:
					return int8(v)
				case v <= math.MaxInt16:
					return int16(v)
				case v <= math.MaxInt32:
					return int32(v)
				}
				return int64(v)
			}
			return uint(v)
		}
		return v
	case kind == model.F4:
		f := math.Float64frombits(e.F)
		if v, ok := integralGoValue(f, variant); ok {
			return v
		}
		if variant%2 == 1 && float64(float32(f)) == f {
			return float32(f)
		}
		return f
	case kind == model.F8:
		f := math.Float64frombits(e.F)
		if v, ok := integralGoValue(f, variant); ok {
			return v
		}
		return f
	}
	panic("goArg: kind " + kind)
}

// integralGoValue hands a whole number to a float item as a Go integer (the factories take every integer type):
// the widest type that holds it exactly - uint64 from 2^63 on - for every third variant.
func integralGoValue(f float64, variant int) (interface{}, bool) {
	if variant%3 != 2 || f != math.Trunc(f) || (f == 0 && math.Signbit(f)) {
		return nil, false
	}
	switch {
	case f >= -9223372036854775808 && f < 9223372036854775808:
		if variant%2 == 0 && f >= math.MinInt32 && f <= math.MaxInt32 {
			return int32(f), true
		}
		return int64(f), true
	case f >= 9223372036854775808 && f < 18446744073709551616:
		if variant%2 == 0 {
			return uint(f), true
		}
		return uint64(f), true
	}
	return nil, false
}

// buildItem constructs the real item for a model node through the public
// factories only. It panics when a factory panics.
func buildItem(n *model.Node, variant int) ast.ItemNode {
	if n.Bulk != nil {
		n = n.Expanded()
	}
	switch n.Kind {
	case model.L:
		args := make([]interface{}, len(n.Children))
		for i, c := range n.Children {
			if c.Node != nil {
				args[i] = buildItem(c.Node, variant)
			} else {
				args[i] = c.Var
			}
		}
		return ast.NewListNode(args...)
	case model.A:
		if n.AVar != nil {
			return ast.NewASCIINodeVariable(n.AVar.Name, n.AVar.Min, n.AVar.Max)
		}
		return ast.NewASCIINode(n.Str)
	}
	args := make([]interface{}, len(n.Elems))
	for i, e := range n.Elems {
		args[i] = goArg(n.Kind, e, variant)
	}
	switch n.Kind {
	case model.B:
		return ast.NewBinaryNode(args...)
	case model.BOOLEAN:
		return ast.NewBooleanNode(args...)
	case model.I1, model.I2, model.I4, model.I8:
		return ast.NewIntNode(model.Width(n.Kind), args...)
	case model.U1, model.U2, model.U4, model.U8:
		return ast.NewUintNode(model.Width(n.Kind), args...)
	case model.F4, model.F8:
		return ast.NewFloatNode(model.Width(n.Kind), args...)
	}
	panic("buildItem: kind " + n.Kind)
}

// buildItemOrEmpty maps a nil model item to the library's empty item.
func buildItemOrEmpty(n *model.Node, variant int) ast.ItemNode {
	if n == nil {
		return ast.NewEmptyItemNode()
	}
	return buildItem(n, variant)
}

// itemString prints an item through its Stringer.
func itemString(it ast.ItemNode) string {
	return fmt.Sprint(it)
}

func sameStrings(a, b []string) bool {
	if len(a) != len(b) {
		return false
	}
	for i := range a {
		if a[i] != b[i] {
			return false
		}
	}
	return true
}

func hexPrefix(b []byte, n int) string {
	if len(b) <= n {
		return fmt.Sprintf("%x", b)
	}
	return fmt.Sprintf("%x…(%d bytes)", b[:n], len(b))
}

// firstDiff describes where two byte strings differ.
func firstDiff(a, b []byte) string {
	n := len(a)
	if len(b) < n {
		n = len(b)
	}
	for i := 0; i < n; i++ {
		if a[i] != b[i] {
			lo := i - 4
			if lo < 0 {
				lo = 0
			}
			hiA, hiB := i+8, i+8
			if hiA > len(a) {
				hiA = len(a)
			}
			if hiB > len(b) {
				hiB = len(b)
			}
			return fmt.Sprintf("first difference at byte %d: got …%x… want …%x… (lengths %d / %d)", i, a[lo:hiA], b[lo:hiB], len(a), len(b))
		}
	}
	return fmt.Sprintf("lengths differ: got %d want %d (common prefix equal)", len(a), len(b))
}
