package props

import (
	"bytes"
	"fmt"
	"strconv"
	"strings"
	"testing"

	"verifharness/model"

	"github.com/wolimst/lib-secs2-hsms-go/pkg/ast"
	"github.com/wolimst/lib-secs2-hsms-go/pkg/parser/sml"
	"pgregory.net/rapid"
)

// C04 - SML print -> parse round trip; the printed form is a fixed point.

type c04Case struct {
	Hdr       Hdr         `json:"hdr"`
	Tree      *model.Node `json:"tree"` // nil: no item
	Variant   int         `json:"variant"`
	PlainName bool        `json:"plain_ellipsis_name"` // a single ellipsis is called "..." instead of "...[0]"
}

func init() { registerReplay("c04", checkC04) }

// fillsFromPrinted derives a value for every variable from the printed form alone.
func fillsFromPrinted(pn *model.PNode, out map[string]interface{}) {
	switch pn.Kind {
	case model.L:
		for _, c := range pn.Children {
			if c.Node != nil {
				fillsFromPrinted(c.Node, out)
			} else if !strings.HasPrefix(c.Var, "...") {
				out[c.Var] = ast.NewUintNode(1, 7)
			}
		}
	case model.A:
		if pn.AVar != "" {
			min := 0
			if pn.HasSize {
				txt := pn.SizeText
				if i := strings.Index(txt, ".."); i >= 0 {
					txt = txt[:i]
				}
				min, _ = strconv.Atoi(strings.TrimSpace(txt))
			}
			if min > 100000 {
				out["\x00uncompletable"] = true // no string can be that long: the message can never be completed
				return
			}
			out[pn.AVar] = strings.Repeat("k", min)
		}
	default:
		for _, e := range pn.Elems {
			if e.Var == "" {
				continue
			}
			switch {
			case pn.Kind == model.BOOLEAN:
				out[e.Var] = true
			case model.IsFloat(pn.Kind):
				out[e.Var] = 2.5
			case model.IsSigned(pn.Kind):
				out[e.Var] = -3
			default:
				out[e.Var] = 3
			}
		}
	}
}

// completeFromPrinted completes a message using only what its printed form shows.
func completeFromPrinted(m *ast.DataMessage) (*ast.DataMessage, error) {
	s := m.String()
	body := itemPart(s[:len(s)-2])
	if strings.TrimSpace(body) != "" {
		// remove every ellipsis first (count 0 keeps all names)
		zero := map[string]interface{}{}
		for _, v := range m.Variables() {
			if model.IsEllipsisName(v) {
				zero[v] = 0
			}
		}
		if len(zero) > 0 {
			m = m.FillVariables(zero)
			s = m.String()
			body = itemPart(s[:len(s)-2])
		}
		pn, err := model.ReadItem(body)
		if err != nil {
			return nil, fmt.Errorf("printed item is unreadable: %v", err)
		}
		fill := map[string]interface{}{}
		fillsFromPrinted(pn, fill)
		if _, never := fill["\x00uncompletable"]; never {
			return nil, nil
		}
		if len(fill) > 0 {
			m = m.FillVariables(fill)
		}
	}
	m = m.SetWaitBit(false).SetSessionIDAndSystemBytes(4660, []byte{0xCA, 0xFE, 0xBA, 0xBE})
	return m, nil
}

// printParseFixedPoint: parsing the printed form of m returns exactly m.
func printParseFixedPoint(m *ast.DataMessage) error {
	printed := m.String()
	msgs, errs, warns := sml.Parse(printed)
	if len(errs) != 0 || len(msgs) != 1 {
		return fmt.Errorf("the printed form does not parse back to one message: %d message(s), errors %q\nprinted:\n%s", len(msgs), errs, clipStr(printed, 500))
	}
	if len(warns) != 0 {
		return fmt.Errorf("parsing the printed form gives warnings %q\nprinted:\n%s", warns, clipStr(printed, 500))
	}
	back := msgs[0]
	if back.String() != printed {
		return fmt.Errorf("printed form is not a fixed point:\nfirst:  %s\nsecond: %s", clipStr(printed, 500), clipStr(back.String(), 500))
	}
	if back.Name() != m.Name() || back.StreamCode() != m.StreamCode() || back.FunctionCode() != m.FunctionCode() || back.WaitBit() != m.WaitBit() || back.Direction() != m.Direction() {
		return fmt.Errorf("header fields changed: name %q->%q S%dF%d->S%dF%d wait %s->%s dir %s->%s", m.Name(), back.Name(), m.StreamCode(), m.FunctionCode(), back.StreamCode(), back.FunctionCode(), m.WaitBit(), back.WaitBit(), m.Direction(), back.Direction())
	}
	gv, wv := back.Variables(), m.Variables()
	if !sameStrings(gv, wv) && !model.EllipsisNamesAgree(gv, wv) && !(len(gv) == 0 && len(wv) == 0) {
		return fmt.Errorf("variables changed: %q -> %q", wv, gv)
	}
	c1, err := completeFromPrinted(m)
	if err != nil {
		return err
	}
	c2, err := completeFromPrinted(back)
	if err != nil {
		return err
	}
	if c1 == nil || c2 == nil {
		if (c1 == nil) != (c2 == nil) {
			return fmt.Errorf("only one of the two messages can be completed\nprinted:\n%s", clipStr(printed, 400))
		}
		return nil
	}
	b1, b2 := c1.ToBytes(), c2.ToBytes()
	if len(b1) == 0 || !bytes.Equal(b1, b2) {
		return fmt.Errorf("once completed the two messages encode differently (%d / %d bytes): %s\nprinted:\n%s", len(b1), len(b2), firstDiff(b2, b1), clipStr(printed, 400))
	}
	return nil
}

func checkC04(c c04Case) (ci caseInfo, err error) {
	h := c.Hdr
	item := buildItemOrEmpty(c.Tree, c.Variant)
	m := ast.NewDataMessage(h.Name, h.Stream, h.Function, h.Wait, h.Dir, item)
	// non-triviality
	if c.Tree != nil {
		c.Tree.Walk(func(n *model.Node) {
			if n.Bulk != nil {
				ci.Nontrivial = true
				return
			}
			switch {
			case n.Kind == model.A && n.AVar != nil:
				ci.Nontrivial = true
				ci.label("has:ascii-variable")
			case n.Kind == model.A:
				for i := 0; i < len(n.Str); i++ {
					ch := n.Str[i]
					if !(ch >= 'a' && ch <= 'z') && !(ch >= 'A' && ch <= 'Z') && !(ch >= '0' && ch <= '9') && ch != ' ' {
						ci.Nontrivial = true
						if ch == '"' {
							ci.label("has:quote")
						}
						if ch == '\\' {
							ci.label("has:backslash")
						}
						if ch < 32 || ch == 127 {
							ci.label("has:control-char")
						}
					}
				}
			case model.IsFloat(n.Kind) && len(n.Elems) > 0:
				ci.Nontrivial = true
				ci.label("has:float")
			}
			for _, e := range n.Elems {
				if e.Var != "" {
					ci.Nontrivial = true
					ci.label("has:variable")
				}
			}
			for _, ch := range n.Children {
				if ch.Node == nil {
					ci.Nontrivial = true
					if model.IsEllipsisName(ch.Var) {
						ci.label("has:ellipsis")
					}
				}
			}
		})
	}
	if h.Name != "" {
		ci.label("has:name")
	}
	if err := printParseFixedPoint(m); err != nil {
		return ci, err
	}
	// the re-parsed message must also agree with the model (not only with the printer)
	msgs, _, _ := sml.Parse(m.String())
	if err := compareParsed(msgs[0], smlMsg{Hdr: h, Tree: parserNumbered(c.Tree)}, c.Variant); err != nil {
		return ci, fmt.Errorf("re-parsed message disagrees with the model: %v", err)
	}
	return ci, nil
}

// parserNumbered returns the tree with its ellipses named the way the parser names them.
func parserNumbered(n *model.Node) *model.Node {
	if n == nil {
		return nil
	}
	c := n.Clone()
	numberEllipses(c)
	return c
}

func genC04(t *rapid.T) c04Case {
	c := c04Case{Hdr: genHdr(t, false), Variant: rapid.IntRange(0, 11).Draw(t, "variant")}
	c.Hdr.Session = -1
	nm := newNamer(true, true)
	c.Tree = genTree(t, treeOpts{Vars: true, Ellipsis: true, Suffix: true, MaxDepth: 5, VarPct: 25, DeepMax: 60, Bulk: rapid.IntRange(0, 19).Draw(t, "allowBulk") == 19}, nm)
	capBulk(c.Tree, 600)
	ne := numberEllipses(c.Tree)
	if ne == 1 && rapid.Bool().Draw(t, "plainEllipsisName") {
		c.PlainName = true
		c.Tree.Walk(func(x *model.Node) {
			for i, ch := range x.Children {
				if ch.Node == nil && model.IsEllipsisName(ch.Var) {
					x.Children[i].Var = "..."
				}
			}
		})
	}
	if rapid.IntRange(0, 15).Draw(t, "noItem") == 15 {
		c.Tree = nil
	}
	return c
}

// capBulk keeps bulk payloads small where the text goes through the SML lexer
// (which is quadratic in the text length).
func capBulk(n *model.Node, max int) {
	if n == nil {
		return
	}
	n.Walk(func(x *model.Node) {
		if x.Bulk != nil && x.Bulk.N > max {
			x.Bulk.N = 253 + x.Bulk.N%6
			stats.exclude("bulk-capped-to-255|256-border-for-sml")
		}
	})
}

func TestC04(t *testing.T) {
	rapidProp(t, "C04", "c04", genC04, checkC04)
}

// TestC04Accepted: direction (ii) - for every text the parser accepts, printing
// each returned message and parsing it again returns an equal message.
type c04Text struct {
	Text string `json:"text"`
}

func init() { registerReplay("c04text", checkC04Text) }

func checkC04Text(c c04Text) (ci caseInfo, err error) {
	var msgs []*ast.DataMessage
	var errs []string
	if p, _ := try(func() { msgs, errs, _ = sml.Parse(c.Text) }); p {
		// a panic escaping the parser is the subject of C06, not of the round trip
		ci.label("text:parser-panicked(C06)")
		stats.exclude("parser-panicked-see-C06")
		return ci, nil
	}
	if len(errs) > 0 {
		ci.label("text:rejected")
		return ci, nil
	}
	ci.label("text:accepted")
	ci.Nontrivial = len(msgs) > 0
	for i, m := range msgs {
		if err := printParseFixedPoint(m); err != nil {
			return ci, fmt.Errorf("message %d of the accepted text: %v\ntext:\n%s", i+1, err, clipStr(c.Text, 500))
		}
	}
	return ci, nil
}

func TestC04Accepted(t *testing.T) {
	rapidProp(t, "C04", "c04text", func(t *rapid.T) c04Text {
		switch rapid.IntRange(0, 3).Draw(t, "class") {
		case 0:
			return c04Text{Text: strings.ToValidUTF8(genSoup(t), "?")}
		default:
			sp := &rapidSpeller{t: t, sizes: rapid.Bool().Draw(t, "withSizes")}
			n := rapid.IntRange(1, 3).Draw(t, "nmsgs")
			_, toks := genSMLMessages(t, n, sp, treeOpts{Vars: true, Ellipsis: true, Suffix: true, NoDeep: true, MaxDepth: 4})
			var all []model.Tok
			for i := range toks {
				all = append(all, toks[i]...)
			}
			s, _ := render(all, genLayout(t, all, true))
			return c04Text{Text: strings.ToValidUTF8(s, "?")}
		}
	}, checkC04Text)
}
