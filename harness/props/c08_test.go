package props

import (
	"fmt"
	"regexp"
	"strconv"
	"strings"
	"testing"

	"verifharness/model"

	"github.com/wolimst/lib-secs2-hsms-go/pkg/ast"
	"github.com/wolimst/lib-secs2-hsms-go/pkg/parser/sml"
	"pgregory.net/rapid"
)

// C08 - comments, whitespace and letter case never change what is parsed
// (metamorphic relation between two layouts of the same token sequence).

type c08Case struct {
	Toks []model.Tok `json:"toks"`
	Flip bool        `json:"flip"` // layout B also changes the letter case of keywords / type names / number prefixes
	A    layoutSpec  `json:"a"`
	B    layoutSpec  `json:"b"`
	Kind string      `json:"kind"` // valid / invalid variant description
}

func init() { registerReplay("c08", checkC08) }

func flipLetters(s string) string {
	b := []byte(s)
	for i := range b {
		switch {
		case b[i] >= 'a' && b[i] <= 'z':
			b[i] -= 32
		case b[i] >= 'A' && b[i] <= 'Z':
			b[i] += 32
		}
	}
	return string(b)
}

var reNumPrefix = regexp.MustCompile(`^([+-]?0)([xXbBoO])`)

// flipCase changes the letter case of everything the property calls
// case-insensitive: header keywords, type names, T/F, number prefixes and
// exponent letters. Names, variables and strings are left alone.
func flipCase(toks []model.Tok) []model.Tok {
	out := make([]model.Tok, len(toks))
	for i, t := range toks {
		out[i] = t
		switch t.Kind {
		case "sf", "wait", "dir", "type", "bool":
			out[i].Text = flipLetters(t.Text)
		case "num":
			txt := t.Text
			if m := reNumPrefix.FindStringSubmatch(txt); m != nil {
				txt = m[1] + flipLetters(m[2]) + txt[len(m[0]):]
			} else if !strings.HasPrefix(strings.TrimLeft(txt, "+-"), "0x") && !strings.HasPrefix(strings.TrimLeft(txt, "+-"), "0X") {
				txt = strings.Map(func(r rune) rune {
					if r == 'e' {
						return 'E'
					}
					if r == 'E' {
						return 'e'
					}
					return r
				}, txt)
			}
			out[i].Text = txt
		}
	}
	return out
}

var reDiagPos = regexp.MustCompile(`(?s)^Ln (\d+), Col (\d+): (.*)$`)

type diag struct {
	line, col int
	text      string
}

func parseDiags(ds []string) ([]diag, error) {
	var out []diag
	for _, d := range ds {
		m := reDiagPos.FindStringSubmatch(d)
		if m == nil {
			return nil, fmt.Errorf("diagnostic %q is not of the form Ln x, Col y: text", d)
		}
		l, _ := strconv.Atoi(m[1])
		c, _ := strconv.Atoi(m[2])
		out = append(out, diag{l, c, m[3]})
	}
	return out, nil
}

// tokenPositions maps "line:col" of every token start (and of the end of input) to its index.
func tokenPositions(text string, offs []int) map[[2]int]int {
	m := map[[2]int]int{}
	for i, o := range offs {
		l, c := lineCol(text, o)
		if _, dup := m[[2]int{l, c}]; !dup {
			m[[2]int{l, c}] = i
		}
	}
	l, c := lineCol(text, len(text))
	if _, dup := m[[2]int{l, c}]; !dup {
		m[[2]int{l, c}] = len(offs) // end of input
	}
	return m
}

func compareDiags(kind string, da, db []string, textA, textB string, offA, offB []int, fold bool, ci *caseInfo) error {
	if len(da) != len(db) {
		return fmt.Errorf("%d %s(s) under layout A, %d under layout B:\nA: %q\nB: %q", len(da), kind, len(db), da, db)
	}
	pa, err := parseDiags(da)
	if err != nil {
		return err
	}
	pb, err := parseDiags(db)
	if err != nil {
		return err
	}
	posA := tokenPositions(textA, offA)
	for i := range pa {
		same := pa[i].text == pb[i].text
		if !same && fold {
			same = strings.EqualFold(pa[i].text, pb[i].text)
		}
		if !same {
			return fmt.Errorf("%s %d changes its text with the layout:\nA: %q\nB: %q", kind, i+1, pa[i].text, pb[i].text)
		}
		k, ok := posA[[2]int{pa[i].line, pa[i].col}]
		if !ok {
			ci.label("diag-position-inside-a-token(not compared)")
			continue
		}
		var wl, wc int
		if k == len(offB) {
			wl, wc = lineCol(textB, len(textB))
		} else {
			wl, wc = lineCol(textB, offB[k])
		}
		if pb[i].line != wl || pb[i].col != wc {
			return fmt.Errorf("%s %q points at token %d (Ln %d, Col %d) under layout A but at Ln %d, Col %d under layout B, where that token starts at Ln %d, Col %d",
				kind, pa[i].text, k, pa[i].line, pa[i].col, pb[i].line, pb[i].col, wl, wc)
		}
		ci.label("diag-position-compared")
	}
	return nil
}

func checkC08(c c08Case) (ci caseInfo, err error) {
	if c.Kind != "valid" {
		// In a sequence that is no longer a valid message a message name can end up in the message text, where a
		// quote or an opening bracket in it starts a string / size that swallows the FOLLOWING separators: the
		// blanks are then part of a token and no longer "whitespace between tokens". Not a layout change: excluded.
		for _, tk := range c.Toks {
			if tk.Kind == "name" && strings.ContainsAny(tk.Text, "\"[") {
				ci.label("excluded:name-opens-string-or-size-in-invalid-sequence")
				stats.exclude("name-opens-string-or-size-in-invalid-sequence")
				return ci, nil
			}
		}
	}
	textA, offA := render(c.Toks, c.A)
	toksB := c.Toks
	if c.Flip {
		toksB = flipCase(c.Toks)
		ci.label("case-flipped")
	}
	textB, offB := render(toksB, c.B)
	ci.label("variant:" + c.Kind)
	differ := false
	for i := range c.A.Seps {
		if i < len(c.B.Seps) && ((c.A.Comments[i] != "") != (c.B.Comments[i] != "") || strings.Contains(c.A.Seps[i], "\n") != strings.Contains(c.B.Seps[i], "\n")) {
			differ = true
		}
	}
	for i := range c.A.Inner {
		if i < len(c.B.Inner) && c.A.Inner[i] != c.B.Inner[i] {
			differ = true
			ci.label("size-token-respelled")
		}
	}
	if len(c.A.Inner) != len(c.B.Inner) {
		differ = true
		ci.label("size-token-respelled")
	}
	ci.Nontrivial = differ
	var ma, mb []*ast.DataMessage
	var ea, eb, wa, wb []string
	if p, pm := try(func() { ma, ea, wa = sml.Parse(textA) }); p {
		return ci, fmt.Errorf("sml.Parse panicked on layout A: %s\n%s", pm, clipStr(textA, 400))
	}
	if p, pm := try(func() { mb, eb, wb = sml.Parse(textB) }); p {
		return ci, fmt.Errorf("sml.Parse panicked on layout B: %s\n%s", pm, clipStr(textB, 400))
	}
	show := fmt.Sprintf("\n--- layout A:\n%s\n--- layout B:\n%s", clipStr(textA, 700), clipStr(textB, 700))
	if len(ma) != len(mb) {
		return ci, fmt.Errorf("%d message(s) under layout A, %d under layout B (errors A %q, B %q)%s", len(ma), len(mb), ea, eb, show)
	}
	for i := range ma {
		if ma[i].String() != mb[i].String() {
			return ci, fmt.Errorf("message %d differs between the layouts:\nA: %s\nB: %s%s", i+1, clipStr(ma[i].String(), 300), clipStr(mb[i].String(), 300), show)
		}
	}
	if len(ma) > 0 {
		ci.label("outcome:messages")
	}
	if len(ea) > 0 {
		ci.label("outcome:errors")
	}
	if err := compareDiags("error", ea, eb, textA, textB, offA, offB, c.Flip, &ci); err != nil {
		return ci, fmt.Errorf("%v%s", err, show)
	}
	if err := compareDiags("warning", wa, wb, textA, textB, offA, offB, c.Flip, &ci); err != nil {
		return ci, fmt.Errorf("%v%s", err, show)
	}
	return ci, nil
}

var singleTokenFragments = []model.Tok{
	{Text: "999", Kind: "num"}, {Text: "-1", Kind: "num"}, {Text: "1.5", Kind: "num"}, {Text: "T", Kind: "bool"}, {Text: "dup", Kind: "var"}, {Text: ">", Kind: "gt"}, {Text: "<", Kind: "lt"},
	{Text: ".", Kind: "end"}, {Text: "[9]", Kind: "size"}, {Text: "[1..2]", Kind: "size"}, {Text: "\"s\"", Kind: "str"}, {Text: "U1", Kind: "type"}, {Text: "...", Kind: "ellipsis"}, {Text: "0x1FF", Kind: "num"},
	{Text: "S1F1", Kind: "sf"}, {Text: "W", Kind: "wait"}, {Text: "H->E", Kind: "dir"},
}

func genC08(t *rapid.T) c08Case {
	sp := &rapidSpeller{t: t, sizes: rapid.Bool().Draw(t, "withSizes")}
	n := rapid.IntRange(1, 3).Draw(t, "nmsgs")
	_, mt := genSMLMessages(t, n, sp, treeOpts{Vars: true, Ellipsis: true, Suffix: true, NoDeep: true, MaxDepth: 4, MaxElems: 4})
	var toks []model.Tok
	for i := range mt {
		toks = append(toks, mt[i]...)
	}
	c := c08Case{Kind: "valid", Flip: rapid.Bool().Draw(t, "flip")}
	switch rapid.IntRange(0, 7).Draw(t, "variant") {
	case 7: // the same unwanted token twice in a row: two diagnostics with one and the same text
		i := rapid.IntRange(0, len(toks)).Draw(t, "at")
		f := singleTokenFragments[rapid.IntRange(0, len(singleTokenFragments)-1).Draw(t, "frag")]
		toks = append(append(append([]model.Tok(nil), toks[:i]...), f, f), toks[i:]...)
		c.Kind = "token-inserted-twice"
	case 6: // one variable takes the name of another one (anywhere in the text, in an item of any type)
		var at []int
		for i, tk := range toks {
			if tk.Kind == "var" {
				at = append(at, i)
			}
		}
		if len(at) >= 2 {
			i := rapid.IntRange(0, len(at)-1).Draw(t, "from")
			j := rapid.IntRange(0, len(at)-2).Draw(t, "to")
			if j >= i {
				j++
			}
			toks = append([]model.Tok(nil), toks...)
			toks[at[j]].Text = toks[at[i]].Text
			c.Kind = "variable-name-reused"
		}
	case 3: // drop a token
		i := rapid.IntRange(0, len(toks)-1).Draw(t, "at")
		toks = append(append([]model.Tok(nil), toks[:i]...), toks[i+1:]...)
		c.Kind = "token-dropped"
	case 4: // duplicate a token (duplicate variable, extra bracket, ...)
		i := rapid.IntRange(0, len(toks)-1).Draw(t, "at")
		toks = append(append(append([]model.Tok(nil), toks[:i+1]...), toks[i]), toks[i+1:]...)
		c.Kind = "token-duplicated"
	case 5: // insert a single well-formed token that does not belong there
		i := rapid.IntRange(0, len(toks)).Draw(t, "at")
		f := singleTokenFragments[rapid.IntRange(0, len(singleTokenFragments)-1).Draw(t, "frag")]
		toks = append(append(append([]model.Tok(nil), toks[:i]...), f), toks[i:]...)
		c.Kind = "token-inserted"
	}
	if len(toks) == 0 {
		toks = []model.Tok{{Text: "S1F1", Kind: "sf"}, {Text: ".", Kind: "end"}}
	}
	c.Toks = toks
	invalid := c.Kind != "valid"
	if invalid {
		// the role of a token (and so what "its letter case" means, and whether it can fuse with its
		// neighbour) depends on the lexer state once the sequence is no longer a valid message
		c.Flip = false
	}
	c.A = genLayout(t, toks, true, invalid, true)
	c.B = genLayout(t, toks, true, invalid, true)
	return c
}

func TestC08(t *testing.T) {
	rapidProp(t, "C08", "c08", genC08, checkC08)
}
