package props

import (
	"bytes"
	"fmt"
	"testing"

	"verifharness/model"

	"github.com/wolimst/lib-secs2-hsms-go/pkg/ast"
	"pgregory.net/rapid"
)

// C18 - message producers change exactly the fields they name (frame
// condition over histories of producer calls), against a record model.

type c18Op struct {
	Kind    string         `json:"kind"` // wait session fill
	Wait    bool           `json:"wait,omitempty"`
	Session int            `json:"session,omitempty"`
	Sys     model.HexBytes `json:"sys,omitempty"`
	Keys    []int          `json:"keys,omitempty"`    // indices into the bindings
	Unknown bool           `json:"unknown,omitempty"` // add a key that names no variable
	Alien   string         `json:"alien,omitempty"`   // the first key gets a Go value that no item takes (nil, a struct, ...): a rejected argument
	// Wrap 1..3: when the first key names an item variable it is bound to a new item that itself holds a variable of the
	// placeholder's own name (<L v> / <U1 v> / <A v>): legal - the placeholder is gone afterwards - and the list of
	// variable names of the message looks unchanged although the item tree changed
	Wrap int `json:"wrap,omitempty"`
}

type c18Case struct {
	Hdr     Hdr         `json:"hdr"`
	Tree    *model.Node `json:"tree"` // nil: empty item
	Mask    uint64      `json:"mask"`
	Variant int         `json:"variant"`
	HSMS    bool        `json:"hsms"` // start from NewHSMSDataMessage when possible
	Ops     []c18Op     `json:"ops"`
}

func init() { registerReplay("c18", checkC18) }

type msgRecord struct {
	name      string
	stream    int
	function  int
	wait      int
	dir       string
	session   int
	system    [4]byte
	item      *model.Node // nil: empty item
	emptyItem bool
}

func (r *msgRecord) header() string {
	h := fmt.Sprintf("S%dF%d", r.stream, r.function)
	switch r.wait {
	case 1:
		h += " W"
	case 2:
		h += " [W]"
	}
	h += " " + r.dir
	if r.name != "" {
		h += " " + r.name
	}
	return h
}

func (r *msgRecord) compare(m *ast.DataMessage, variant int, when string) error {
	ws := []string{"false", "true", "optional"}[r.wait]
	if m.Name() != r.name || m.StreamCode() != r.stream || m.FunctionCode() != r.function || m.WaitBit() != ws ||
		m.Direction() != r.dir || m.SessionID() != r.session || !bytes.Equal(m.SystemBytes(), r.system[:]) {
		return fmt.Errorf("%s: message has name=%q S%dF%d wait=%s dir=%s session=%d system=%x; model says name=%q S%dF%d wait=%s dir=%s session=%d system=%x",
			when, m.Name(), m.StreamCode(), m.FunctionCode(), m.WaitBit(), m.Direction(), m.SessionID(), m.SystemBytes(),
			r.name, r.stream, r.function, ws, r.dir, r.session, r.system)
	}
	if m.Header() != r.header() {
		return fmt.Errorf("%s: Header() = %q, model %q", when, m.Header(), r.header())
	}
	wantStr := r.header() + "\n."
	var wantVars []string
	if r.item != nil {
		direct := buildItem(r.item, variant)
		wantStr = r.header() + "\n" + itemString(direct) + "\n."
		wantVars = r.item.Variables()
	}
	if m.String() != wantStr {
		return fmt.Errorf("%s: String() differs from the directly constructed message:\n got: %s\nwant: %s", when, clipStr(m.String(), 400), clipStr(wantStr, 400))
	}
	if !sameStrings(m.Variables(), wantVars) && !(len(m.Variables()) == 0 && len(wantVars) == 0) {
		return fmt.Errorf("%s: Variables() = %q, model %q", when, m.Variables(), wantVars)
	}
	var wantBytes []byte
	if r.wait != 2 && r.session != -1 && len(wantVars) == 0 {
		mm := &model.Msg{Session: r.session, Stream: r.stream, Function: r.function, Wait: r.wait == 1, System: r.system, Item: r.item}
		wantBytes, _, _ = model.RefEncodeMsg(mm, nil)
	}
	if got := m.ToBytes(); !bytes.Equal(got, wantBytes) {
		return fmt.Errorf("%s: ToBytes() %s, model %s", when, hexPrefix(got, 40), hexPrefix(wantBytes, 40))
	}
	return nil
}

func checkC18(c c18Case) (ci caseInfo, err error) {
	h := c.Hdr
	var tmpl *model.Node
	var binds []Assign
	if c.Tree != nil {
		tmpl, binds = templatizeNamed(c.Tree, c.Mask, true)
	}
	rec := &msgRecord{name: h.Name, stream: h.Stream, function: h.Function, wait: h.Wait, dir: h.Dir, session: -1, item: tmpl}
	var msg *ast.DataMessage
	if c.HSMS && h.Wait != 2 && h.Session != -1 && (tmpl == nil || !tmpl.HasVariables()) {
		msg = ast.NewHSMSDataMessage(h.Name, h.Stream, h.Function, h.Wait, h.Dir, buildItemOrEmpty(tmpl, c.Variant), h.Session, h.System)
		rec.session = h.Session
		copy(rec.system[:], h.System)
		ci.label("start:hsms")
	} else {
		msg = ast.NewDataMessage(h.Name, h.Stream, h.Function, h.Wait, h.Dir, buildItemOrEmpty(tmpl, c.Variant))
		ci.label("start:data")
	}
	if err := rec.compare(msg, c.Variant, "after construction"); err != nil {
		return ci, err
	}
	kinds := map[string]bool{}
	for i, op := range c.Ops {
		when := fmt.Sprintf("after step %d (%s)", i+1, op.Kind)
		next := *rec
		refuse := ""
		var res *ast.DataMessage
		var panicked bool
		var pmsg string
		switch op.Kind {
		case "wait":
			if rec.wait == 2 {
				if op.Wait && rec.function%2 == 0 {
					refuse = "W-bit on an even function"
				}
				next.wait = 0
				if op.Wait {
					next.wait = 1
				}
				ci.label("wait:resolves")
			} else {
				ci.label("wait:already-decided")
			}
			panicked, pmsg = try(func() { res = msg.SetWaitBit(op.Wait) })
		case "session":
			if op.Session < -1 || op.Session > 65535 {
				refuse = "session id out of range"
			}
			next.session = op.Session
			next.system = [4]byte{}
			copy(next.system[:], op.Sys)
			ci.label("session:syslen=%d", len(op.Sys))
			given := append([]byte(nil), op.Sys...)
			panicked, pmsg = try(func() { res = msg.SetSessionIDAndSystemBytes(op.Session, given) })
		case "fill":
			fill := map[string]interface{}{}
			bind := map[string]Assign{}
			for _, k := range op.Keys {
				if len(binds) == 0 {
					break
				}
				a := binds[k%len(binds)]
				fill[a.Name] = a.goValue(c.Variant)
				bind[a.Name] = a
			}
			if op.Alien != "" && len(op.Keys) > 0 && len(binds) > 0 {
				a := binds[op.Keys[0]%len(binds)]
				a = Assign{Name: a.Name, Kind: a.Kind, Alien: op.Alien}
				fill[a.Name] = a.goValue(c.Variant)
				bind[a.Name] = a
				ci.label("fill:rejected-argument-type")
			}
			if op.Wrap > 0 && op.Alien == "" && len(op.Keys) > 0 && len(binds) > 0 {
				if a := binds[op.Keys[0]%len(binds)]; a.Kind == "item" {
					w := &model.Node{Kind: model.L, Children: []model.Child{{Var: a.Name}}}
					switch op.Wrap {
					case 2:
						w = &model.Node{Kind: model.U1, Elems: []model.Elem{{Var: a.Name}}}
					case 3:
						w = &model.Node{Kind: model.A, AVar: &model.AVar{Name: a.Name, Min: 0, Max: -1}}
					}
					a = Assign{Name: a.Name, Kind: "item", Node: w}
					fill[a.Name] = a.goValue(c.Variant)
					bind[a.Name] = a
					ci.label("fill:item-holding-the-placeholder-name")
				}
			}
			if op.Unknown {
				fill["no_such_variable"] = 7
			}
			if rec.item != nil {
				ni, serr := substModel(rec.item, bind)
				if serr != nil {
					refuse = serr.Error()
				} else {
					next.item = ni
				}
			}
			ci.label("fill:keys=%d", len(fill))
			panicked, pmsg = try(func() { res = msg.FillVariables(fill) })
		default:
			return ci, fmt.Errorf("harness: unknown op %q", op.Kind)
		}
		kinds[op.Kind] = true
		if refuse != "" {
			ci.label("refused:" + op.Kind)
			if !panicked {
				return ci, fmt.Errorf("%s: the call should be refused (%s) but returned %q / session %d", when, refuse, res.Header(), res.SessionID())
			}
			// the receiver must be untouched
			if err := rec.compare(msg, c.Variant, when+" [receiver after the refused call]"); err != nil {
				return ci, err
			}
			continue
		}
		if panicked {
			return ci, fmt.Errorf("%s: unexpected refusal: %s", when, pmsg)
		}
		if err := next.compare(res, c.Variant, when); err != nil {
			return ci, err
		}
		if err := rec.compare(msg, c.Variant, when+" [receiver]"); err != nil {
			return ci, err
		}
		msg, rec = res, &next
	}
	ci.Nontrivial = len(c.Ops) >= 2 && len(kinds) >= 2
	return ci, nil
}

func genC18(t *rapid.T) c18Case {
	c := c18Case{
		Hdr:     genHdr(t, false),
		Mask:    rapid.Uint64().Draw(t, "mask"),
		Variant: rapid.IntRange(0, 11).Draw(t, "variant"),
		HSMS:    rapid.Bool().Draw(t, "hsms"),
	}
	if c.Hdr.Session == -1 {
		c.Hdr.Session = 5
	}
	c.Tree = genTree(t, treeOpts{NoDeep: true, MaxDepth: 4}, newNamer(false, false))
	if rapid.IntRange(0, 9).Draw(t, "emptyItem") == 9 {
		c.Tree = nil
	}
	n := rapid.IntRange(1, 6).Draw(t, "nops")
	for i := 0; i < n; i++ {
		var op c18Op
		switch rapid.IntRange(0, 2).Draw(t, "opKind") {
		case 0:
			op = c18Op{Kind: "wait", Wait: rapid.Bool().Draw(t, "w")}
		case 1:
			op = c18Op{Kind: "session",
				Session: rapid.SampledFrom([]int{-2, -1, 0, 1, 255, 256, 65535, 65536, 12345, 40000, 1 << 20, -65536}).Draw(t, "session"),
				Sys:     rapid.SliceOfN(rapid.Byte(), 0, 8).Draw(t, "sys")}
		default:
			op = c18Op{Kind: "fill", Keys: rapid.SliceOfN(rapid.IntRange(0, 40), 0, 6).Draw(t, "keys"), Unknown: rapid.IntRange(0, 3).Draw(t, "unknown") == 3}
			if rapid.IntRange(0, 7).Draw(t, "alienArg") == 7 {
				op.Alien = rapid.SampledFrom(alienTypes).Draw(t, "alien")
			}
			if w := rapid.IntRange(0, 11).Draw(t, "wrap"); w <= 3 {
				op.Wrap = w
			}
		}
		c.Ops = append(c.Ops, op)
	}
	return c
}

func TestC18(t *testing.T) {
	rapidProp(t, "C18", "c18", genC18, checkC18)
}
