package props

import (
	"bytes"
	"fmt"
	"math"
	"math/big"
	"strings"
	"testing"
	"unicode"

	"verifharness/model"

	"github.com/wolimst/lib-secs2-hsms-go/pkg/ast"
	"pgregory.net/rapid"
)

// C12 - constructors (and fills) store exactly what was passed or refuse it.

type c12Arg struct {
	T    string `json:"t"`    // Go type name
	Bits uint64 `json:"bits"` // integer value as 64-bit two's complement / float64 or float32 bits / bool
	S    string `json:"s,omitempty"`
}

var goIntTypes = []string{"int", "int8", "int16", "int32", "int64", "uint", "uint8", "uint16", "uint32", "uint64"}

func (a c12Arg) goValue() interface{} {
	switch a.T {
	case "int":
		return int(int64(a.Bits))
	case "int8":
		return int8(a.Bits)
	case "int16":
		return int16(a.Bits)
	case "int32":
		return int32(a.Bits)
	case "int64":
		return int64(a.Bits)
	case "uint":
		return uint(a.Bits)
	case "uint8":
		return uint8(a.Bits)
	case "uint16":
		return uint16(a.Bits)
	case "uint32":
		return uint32(a.Bits)
	case "uint64":
		return a.Bits
	case "float32":
		return math.Float32frombits(uint32(a.Bits))
	case "float64":
		return math.Float64frombits(a.Bits)
	case "string":
		return a.S
	case "bool":
		return a.Bits != 0
	}
	if v, ok := alienValue(a.T); ok {
		return v
	}
	panic("c12Arg type " + a.T)
}

// alienTypes are Go values that no item takes: whatever receives one must refuse it.
var alienTypes = []string{"nil", "struct", "intslice", "nilptr", "map"}

func alienValue(t string) (interface{}, bool) {
	switch t {
	case "nil":
		return nil, true
	case "struct":
		return struct{}{}, true
	case "intslice":
		return []int{1}, true
	case "nilptr":
		return (*int)(nil), true
	case "map":
		return map[string]int{"x": 1}, true
	}
	return nil, false
}

func goTypeRange(t string) (lo, hi *big.Int) {
	bits := map[string]uint{"int": 64, "int8": 8, "int16": 16, "int32": 32, "int64": 64, "uint": 64, "uint8": 8, "uint16": 16, "uint32": 32, "uint64": 64}[t]
	one := big.NewInt(1)
	if strings.HasPrefix(t, "u") {
		return big.NewInt(0), new(big.Int).Sub(new(big.Int).Lsh(one, bits), one)
	}
	h := new(big.Int).Lsh(one, bits-1)
	return new(big.Int).Neg(h), new(big.Int).Sub(h, one)
}

// math returns the mathematical value of a numeric argument (nil if not finite / not numeric).
func (a c12Arg) math() *big.Rat {
	switch a.T {
	case "float32":
		f := float64(math.Float32frombits(uint32(a.Bits)))
		if math.IsNaN(f) || math.IsInf(f, 0) {
			return nil
		}
		return new(big.Rat).SetFloat64(f)
	case "float64":
		f := math.Float64frombits(a.Bits)
		if math.IsNaN(f) || math.IsInf(f, 0) {
			return nil
		}
		return new(big.Rat).SetFloat64(f)
	case "string", "bool":
		return nil
	}
	if _, alien := alienValue(a.T); alien {
		return nil
	}
	lo, _ := goTypeRange(a.T)
	var v *big.Int
	if lo.Sign() < 0 {
		switch a.T {
		case "int8":
			v = big.NewInt(int64(int8(a.Bits)))
		case "int16":
			v = big.NewInt(int64(int16(a.Bits)))
		case "int32":
			v = big.NewInt(int64(int32(a.Bits)))
		default:
			v = big.NewInt(int64(a.Bits))
		}
	} else {
		switch a.T {
		case "uint8":
			v = new(big.Int).SetUint64(uint64(uint8(a.Bits)))
		case "uint16":
			v = new(big.Int).SetUint64(uint64(uint16(a.Bits)))
		case "uint32":
			v = new(big.Int).SetUint64(uint64(uint32(a.Bits)))
		default:
			v = new(big.Int).SetUint64(a.Bits)
		}
	}
	return new(big.Rat).SetInt(v)
}

func targetIntRange(kind string) (lo, hi *big.Int) {
	one := big.NewInt(1)
	w := uint(model.Width(kind) * 8)
	if kind == model.B {
		return big.NewInt(0), big.NewInt(255)
	}
	if model.IsUnsigned(kind) {
		return big.NewInt(0), new(big.Int).Sub(new(big.Int).Lsh(one, w), one)
	}
	h := new(big.Int).Lsh(one, w-1)
	return new(big.Int).Neg(h), new(big.Int).Sub(h, one)
}

type c12Case struct {
	Target  string `json:"target"` // item kind
	Arg     c12Arg `json:"arg"`
	Pos     int    `json:"pos"` // number of ordinary elements before the argument
	After   int    `json:"after"`
	ViaFill bool   `json:"via_fill"`
}

func init() { registerReplay("c12value", checkC12Value) }

func fillerFor(kind string, i int) interface{} {
	switch {
	case kind == model.BOOLEAN:
		return i%2 == 0
	case model.IsFloat(kind):
		return float64(i) + 0.5
	case kind == model.B:
		return i % 7
	}
	return i + 1
}

func factory(kind string, args ...interface{}) ast.ItemNode {
	switch {
	case kind == model.B:
		return ast.NewBinaryNode(args...)
	case kind == model.BOOLEAN:
		return ast.NewBooleanNode(args...)
	case model.IsSigned(kind):
		return ast.NewIntNode(model.Width(kind), args...)
	case model.IsUnsigned(kind):
		return ast.NewUintNode(model.Width(kind), args...)
	case model.IsFloat(kind):
		return ast.NewFloatNode(model.Width(kind), args...)
	}
	panic("factory " + kind)
}

func documentedArgType(kind, t string) bool {
	isInt := false
	for _, g := range goIntTypes {
		if g == t {
			isInt = true
		}
	}
	switch {
	case kind == model.B:
		return t == "int" || t == "string"
	case kind == model.BOOLEAN:
		return t == "bool"
	case model.IsFloat(kind):
		return isInt || t == "float32" || t == "float64"
	}
	return isInt
}

// binaryStringValue: documented form `0b` + binary digits.
func binaryStringValue(s string) (v *big.Int, wellFormed bool) {
	if !strings.HasPrefix(s, "0b") || len(s) == 2 {
		return nil, false
	}
	for _, c := range s[2:] {
		if c != '0' && c != '1' {
			return nil, false
		}
	}
	v, _ = new(big.Int).SetString(s[2:], 2)
	return v, true
}

var maxF32Rat = new(big.Rat).SetFloat64(math.MaxFloat32)
var maxF64Rat = new(big.Rat).SetFloat64(math.MaxFloat64)

// halfUlpAboveMaxF32 = MaxFloat32 + 2^103 (the rounding boundary towards +Inf).
var f32RoundLimit = new(big.Rat).Add(maxF32Rat, new(big.Rat).SetInt(new(big.Int).Lsh(big.NewInt(1), 103)))

func checkC12Value(c c12Case) (ci caseInfo, err error) {
	kind := c.Target
	arg := c.Arg.goValue()
	ci.label("target:%s/arg:%s", kind, c.Arg.T)
	if c.ViaFill {
		ci.label("via:fill")
	} else {
		ci.label("via:factory")
	}
	args := []interface{}{}
	for i := 0; i < c.Pos; i++ {
		args = append(args, fillerFor(kind, i))
	}
	at := len(args)
	args = append(args, arg)
	for i := 0; i < c.After; i++ {
		args = append(args, fillerFor(kind, i+3))
	}

	// expectation from the mathematical value
	mv := c.Arg.math()
	documented := documentedArgType(kind, c.Arg.T)
	mustAccept, mustRefuse := false, false
	var wantInt *big.Int
	var wantF32 []uint32 // acceptable float32 results
	var wantF64 uint64
	var wantBool bool
	nearBoundary := false
	_, alien := alienValue(c.Arg.T)
	switch {
	case alien:
		mustRefuse, nearBoundary = true, true
	case c.Arg.T == "string":
		if kind == model.B && strings.HasPrefix(c.Arg.S, "0b") {
			v, wf := binaryStringValue(c.Arg.S)
			if strings.Contains(c.Arg.S, "_") {
				// Go-style digit separators: denotation not documented, either outcome (never generated by default)
				ci.label("either:underscore")
				return ci, nil
			}
			if wf && v.Cmp(big.NewInt(255)) <= 0 {
				mustAccept, wantInt = true, v
			} else {
				mustRefuse = true
			}
			nearBoundary = true
		} else {
			return ci, fmt.Errorf("harness: string argument %q is a variable name, not a value", c.Arg.S)
		}
	case c.Arg.T == "bool":
		if kind == model.BOOLEAN {
			mustAccept, wantBool = true, c.Arg.Bits != 0
		}
	case model.IsFloat(kind):
		if mv == nil {
			mustRefuse = true // NaN, Inf
			nearBoundary = true
			break
		}
		abs := new(big.Rat).Abs(mv)
		if kind == model.F8 {
			if abs.Cmp(maxF64Rat) <= 0 {
				mustAccept = documented
				b, _ := model.NearestFloat64Bits(mv)
				wantF64 = b
			} else {
				mustRefuse = true
			}
			nearBoundary = abs.Cmp(new(big.Rat).SetFloat64(math.MaxFloat64/2)) > 0 || abs.Sign() == 0
		} else {
			switch {
			case abs.Cmp(maxF32Rat) <= 0:
				mustAccept = documented
			case abs.Cmp(f32RoundLimit) <= 0:
				ci.label("either:f4-rounding-zone")
			default:
				mustRefuse = true
			}
			if !mustRefuse {
				direct, ok := model.NearestFloat32Bits(mv)
				if ok {
					wantF32 = append(wantF32, direct)
				}
				// double rounding through float64 (integers wider than 53 bits): both are "rounded to the width"
				f64, _ := mv.Float64()
				if f32 := float32(f64); !math.IsInf(float64(f32), 0) {
					wantF32 = append(wantF32, math.Float32bits(f32))
				}
			}
			nearBoundary = abs.Cmp(new(big.Rat).SetFloat64(math.MaxFloat32/2)) > 0 || abs.Sign() == 0
		}
		if mv.Sign() == 0 && (c.Arg.T == "float32" || c.Arg.T == "float64") {
			// signed zero is part of the value
			neg := math.Signbit(math.Float64frombits(c.Arg.Bits))
			if c.Arg.T == "float32" {
				neg = math.Signbit(float64(math.Float32frombits(uint32(c.Arg.Bits))))
			}
			if neg {
				wantF64 = 1 << 63
				wantF32 = []uint32{1 << 31}
			}
		}
	case kind == model.BOOLEAN:
		// a number handed to a boolean item: not representable
		mustRefuse = true
	default: // integer targets, B
		if mv == nil || !mv.IsInt() {
			mustRefuse = true
			break
		}
		v := mv.Num()
		lo, hi := targetIntRange(kind)
		if v.Cmp(lo) >= 0 && v.Cmp(hi) <= 0 {
			mustAccept = documented
			wantInt = v
		} else {
			mustRefuse = true
		}
		one := big.NewInt(1)
		for _, b := range []*big.Int{lo, hi} {
			d := new(big.Int).Sub(v, b)
			if d.Abs(d).Cmp(one) <= 0 {
				nearBoundary = true
			}
		}
		glo, ghi := goTypeRange(c.Arg.T)
		if v.Cmp(glo) == 0 || v.Cmp(ghi) == 0 {
			nearBoundary = true
		}
	}

	// whatever the outcome is, the factory and a fill of the same position must agree on it
	{
		var direct, filled ast.ItemNode
		pd, _ := try(func() { direct = factory(kind, args...) })
		pf, _ := try(func() {
			targs := append([]interface{}(nil), args...)
			targs[at] = "x"
			filled = factory(kind, targs...).FillVariables(map[string]interface{}{"x": arg})
		})
		if pd != pf {
			return ci, fmt.Errorf("%s value %v (%s): the factory %s it but filling a variable with it %s it", kind, describeArg(c.Arg), c.Arg.T,
				map[bool]string{true: "refuses", false: "accepts"}[pd], map[bool]string{true: "refuses", false: "accepts"}[pf])
		}
		if !pd && (itemString(direct) != itemString(filled) || !bytes.Equal(direct.ToBytes(), filled.ToBytes())) {
			return ci, fmt.Errorf("%s value %v (%s): constructed %q but filled %q", kind, describeArg(c.Arg), c.Arg.T, clipStr(itemString(direct), 100), clipStr(itemString(filled), 100))
		}
	}
	var item ast.ItemNode
	panicked, pmsg := try(func() {
		if c.ViaFill {
			targs := append([]interface{}(nil), args...)
			targs[at] = "x"
			tmpl := factory(kind, targs...)
			item = tmpl.FillVariables(map[string]interface{}{"x": arg})
		} else {
			item = factory(kind, args...)
		}
	})
	ci.Nontrivial = nearBoundary || panicked
	desc := fmt.Sprintf("%s value %v (%s) at position %d, via fill=%v", kind, describeArg(c.Arg), c.Arg.T, at, c.ViaFill)
	if panicked {
		ci.label("outcome:refused")
		if mustAccept {
			return ci, fmt.Errorf("%s: refused (%s) although the value is in the item's domain", desc, pmsg)
		}
		return ci, nil
	}
	ci.label("outcome:stored")
	if mustRefuse {
		return ci, fmt.Errorf("%s: accepted although the item cannot represent it; printed %q", desc, clipStr(itemString(item), 120))
	}
	// stored: the printed and the encoded value must be exactly the value passed in
	printed := itemString(item)
	pn, rerr := model.ReadItem(printed)
	if rerr != nil {
		return ci, fmt.Errorf("%s: printed form %q is unreadable: %v", desc, clipStr(printed, 120), rerr)
	}
	if pn.Kind != kind || len(pn.Elems) != len(args) {
		return ci, fmt.Errorf("%s: printed form %q has kind %s with %d elements, want %s with %d", desc, clipStr(printed, 120), pn.Kind, len(pn.Elems), kind, len(args))
	}
	text := pn.Elems[at].Text
	want := &model.Node{Kind: kind}
	for i, a := range args {
		if i == at {
			want.Elems = append(want.Elems, model.Elem{})
			continue
		}
		want.Elems = append(want.Elems, elemOfFiller(kind, a))
	}
	switch {
	case kind == model.BOOLEAN:
		if (text == "T") != wantBool || (text != "T" && text != "F") {
			return ci, fmt.Errorf("%s: printed as %q", desc, text)
		}
		want.Elems[at] = model.Elem{T: wantBool}
	case model.IsFloat(kind):
		r, ok := model.ParseDecimalExact(text)
		if !ok {
			return ci, fmt.Errorf("%s: printed element %q is not a number", desc, text)
		}
		if kind == model.F8 {
			got, _ := model.NearestFloat64Bits(r)
			if r.Sign() == 0 && strings.HasPrefix(text, "-") {
				got = 1 << 63
			}
			if got != wantF64 {
				return ci, fmt.Errorf("%s: printed %q = bits %#x, want %#x", desc, text, got, wantF64)
			}
			want.Elems[at] = model.Elem{F: wantF64}
		} else {
			got, _ := model.NearestFloat32Bits(r)
			if r.Sign() == 0 && strings.HasPrefix(text, "-") {
				got = 1 << 31
			}
			okv := false
			for _, w := range wantF32 {
				if w == got {
					okv = true
				}
			}
			if !okv {
				return ci, fmt.Errorf("%s: printed %q = float32 bits %#x, want one of %#x", desc, text, got, wantF32)
			}
			want.Elems[at] = model.Elem{F: math.Float64bits(float64(math.Float32frombits(got)))}
		}
	default:
		v, ok := model.ParseIntegerLiteral(text)
		if !ok {
			return ci, fmt.Errorf("%s: printed element %q is not an integer literal", desc, text)
		}
		if wantInt == nil || v.Cmp(wantInt) != 0 {
			return ci, fmt.Errorf("%s: printed as %s, passed in %v", desc, text, describeArg(c.Arg))
		}
		if model.IsSigned(kind) {
			want.Elems[at] = model.Elem{I: wantInt.Int64()}
		} else {
			want.Elems[at] = model.Elem{U: wantInt.Uint64()}
		}
	}
	wantBytes, _, eerr := model.RefEncodeItem(want, nil)
	if eerr != nil {
		return ci, fmt.Errorf("harness: %v", eerr)
	}
	if got := item.ToBytes(); !bytes.Equal(got, wantBytes) {
		return ci, fmt.Errorf("%s: encoded as %x, want %x", desc, got, wantBytes)
	}
	if err := storedInList(desc, item, wantBytes, c.Pos+c.After); err != nil {
		return ci, err
	}
	return ci, nil
}

func elemOfFiller(kind string, a interface{}) model.Elem {
	switch v := a.(type) {
	case bool:
		return model.Elem{T: v}
	case float64:
		return model.Elem{F: math.Float64bits(v)}
	case int:
		if model.IsSigned(kind) {
			return model.Elem{I: int64(v)}
		}
		return model.Elem{U: uint64(v)}
	}
	panic("elemOfFiller")
}

func describeArg(a c12Arg) string {
	switch a.T {
	case "string":
		return fmt.Sprintf("%q", a.S)
	case "bool":
		return fmt.Sprint(a.Bits != 0)
	case "float32", "float64":
		return fmt.Sprintf("%v(bits %#x)", a.goValue(), a.Bits)
	}
	if _, alien := alienValue(a.T); alien {
		return fmt.Sprintf("%#v", a.goValue())
	}
	if m := a.math(); m != nil {
		return m.Num().String()
	}
	return "?"
}

func clipStr(s string, n int) string {
	if len(s) > n {
		return s[:n] + "…"
	}
	return s
}

var c12Targets = []string{model.I1, model.I2, model.I4, model.I8, model.U1, model.U2, model.U4, model.U8, model.F4, model.F8, model.B, model.BOOLEAN}

func genC12Value(t *rapid.T) c12Case {
	c := c12Case{
		Target:  rapid.SampledFrom(c12Targets).Draw(t, "target"),
		Pos:     rapid.IntRange(0, 2).Draw(t, "pos"),
		After:   rapid.IntRange(0, 1).Draw(t, "after"),
		ViaFill: rapid.Bool().Draw(t, "viaFill"),
	}
	kind := c.Target
	if rapid.IntRange(0, 19).Draw(t, "alienType") == 19 {
		c.Arg = c12Arg{T: rapid.SampledFrom(alienTypes).Draw(t, "alien")}
		return c
	}
	switch {
	case kind == model.BOOLEAN:
		if rapid.IntRange(0, 3).Draw(t, "numberIntoBool") == 3 {
			c.Arg = c12Arg{T: "int", Bits: uint64(rapid.IntRange(0, 1).Draw(t, "v"))}
		} else {
			c.Arg = c12Arg{T: "bool", Bits: uint64(rapid.IntRange(0, 1).Draw(t, "v"))}
		}
		return c
	case kind == model.B && rapid.Bool().Draw(t, "binaryString"):
		c.Arg = c12Arg{T: "string", S: rapid.SampledFrom([]string{
			"0b0", "0b1", "0b101", "0b11111111", "0b011111111", "0b100000000", "0b111111111", "0b", "0b2", "0bxyz", "0b1x", "0b-1", "0b 1", "0b1 ",
			"0b10000000000000000000000000000000000000000000000000000000000000000", "0b0000000000000000000000000000000000000000000000000000000000000000001",
		}).Draw(t, "bstr")}
		if rapid.IntRange(0, 3).Draw(t, "randomBits") == 3 {
			n := rapid.IntRange(1, 10).Draw(t, "nbits")
			s := "0b"
			for i := 0; i < n; i++ {
				s += string("01"[rapid.IntRange(0, 1).Draw(t, "bit")])
			}
			c.Arg.S = s
		}
		return c
	}
	types := goIntTypes
	if model.IsFloat(kind) {
		types = append(append([]string{}, goIntTypes...), "float32", "float64", "float64", "float32")
	}
	if kind == model.B {
		types = []string{"int"}
	}
	gt := rapid.SampledFrom(types).Draw(t, "gotype")
	c.Arg.T = gt
	if gt == "float32" {
		c.Arg.Bits = uint64(rapid.OneOf(
			rapid.SampledFrom([]uint32{0, 1 << 31, 0x7F7FFFFF, 0xFF7FFFFF, 0x7F800000, 0xFF800000, 0x7FC00000, 0x7F800001, 0x00000001, 0x3F800000}),
			rapid.Uint32(),
		).Draw(t, "f32bits"))
		return c
	}
	if gt == "float64" {
		specials := []float64{0, math.Copysign(0, -1), math.MaxFloat32, -math.MaxFloat32, math.Nextafter(math.MaxFloat32, math.Inf(1)), math.Nextafter(-math.MaxFloat32, math.Inf(-1)),
			math.MaxFloat32 * 2, -math.MaxFloat32 * 2, 1e39, -1e39, math.MaxFloat64, -math.MaxFloat64, math.Inf(1), math.Inf(-1), math.NaN(),
			math.SmallestNonzeroFloat32 / 2, math.SmallestNonzeroFloat32, math.SmallestNonzeroFloat64, 0.1, 1.0000000596046448, 16777217, 3.4028235677973366e+38, 3.4028235e38, 3.40282357e38}
		if rapid.Bool().Draw(t, "f64special") {
			c.Arg.Bits = math.Float64bits(rapid.SampledFrom(specials).Draw(t, "f64s"))
		} else {
			c.Arg.Bits = rapid.Uint64().Draw(t, "f64bits")
			if rapid.IntRange(0, 3).Draw(t, "patternedF64") == 3 {
				c.Arg.Bits = patternBits(t, 8)
			}
		}
		return c
	}
	// integer argument: boundary of the target, boundary of the Go type, or random in the Go type
	glo, ghi := goTypeRange(gt)
	var cands []*big.Int
	add := func(v *big.Int) {
		for d := int64(-1); d <= 1; d++ {
			x := new(big.Int).Add(v, big.NewInt(d))
			if x.Cmp(glo) >= 0 && x.Cmp(ghi) <= 0 {
				cands = append(cands, x)
			}
		}
	}
	if !model.IsFloat(kind) {
		tlo, thi := targetIntRange(kind)
		add(tlo)
		add(thi)
	} else {
		add(new(big.Int).Lsh(big.NewInt(1), 24))
		add(new(big.Int).Lsh(big.NewInt(1), 53))
		add(new(big.Int).Add(new(big.Int).Lsh(big.NewInt(1), 60), new(big.Int).Lsh(big.NewInt(1), 36)))
	}
	add(glo)
	add(ghi)
	add(big.NewInt(0))
	var v *big.Int
	if rapid.IntRange(0, 2).Draw(t, "randomInt") == 2 {
		r := rapid.Uint64().Draw(t, "rbits")
		if rapid.Bool().Draw(t, "patternedInt") {
			// magnitudes of every bit length and byte patterns (zero / all-ones / sign-bit halves), sign-extended
			w := rapid.SampledFrom([]int{1, 2, 4, 8}).Draw(t, "patW")
			r = patternBits(t, w)
			if rapid.Bool().Draw(t, "patSignExtend") {
				sh := uint(64 - 8*w)
				r = uint64(int64(r<<sh) >> sh)
			}
		}
		c.Arg.Bits = r
		return c
	}
	v = cands[rapid.IntRange(0, len(cands)-1).Draw(t, "cand")]
	if v.Sign() < 0 {
		c.Arg.Bits = uint64(v.Int64())
	} else {
		c.Arg.Bits = v.Uint64()
	}
	return c
}

// storedInList: NewListNode stores the items it is given exactly too - the printed list shows the item's own printed text
// (each of its lines, whatever the indentation) and the encoded list is its header followed by the items' bytes.
func storedInList(desc string, item ast.ItemNode, wantBytes []byte, mode int) error {
	sib := ast.NewUintNode(1, 7)
	var list ast.ItemNode
	var wantList []byte
	switch mode % 3 {
	case 0:
		list = ast.NewListNode(item)
		wantList = append([]byte{0x01, 0x01}, wantBytes...)
	case 1:
		list = ast.NewListNode(sib, item, sib)
		wantList = append(append([]byte{0x01, 0x03, 0xA5, 0x01, 0x07}, wantBytes...), 0xA5, 0x01, 0x07)
	default:
		list = ast.NewListNode(ast.NewListNode(item), "held").FillVariables(map[string]interface{}{"held": item})
		wantList = append(append([]byte{0x01, 0x02, 0x01, 0x01}, wantBytes...), wantBytes...)
	}
	printed := itemString(list)
	for _, line := range strings.Split(itemString(item), "\n") {
		if !strings.Contains(printed, strings.TrimSpace(line)) {
			return fmt.Errorf("%s: as a list child the item prints differently: the list shows %q, the item alone %q", desc, clipStr(printed, 300), clipStr(itemString(item), 200))
		}
	}
	if got := list.ToBytes(); !bytes.Equal(got, wantList) {
		return fmt.Errorf("%s: as a list child the item is encoded differently: list %x, want %x", desc, got, wantList)
	}
	return nil
}

func TestC12Value(t *testing.T) {
	rapidProp(t, "C12", "c12value", genC12Value, checkC12Value)
}

// ---------------------------------------------------------------------------
// ASCII strings

type c12ASCII struct {
	Bytes   model.HexBytes `json:"bytes"`
	ViaFill bool           `json:"via_fill"`
}

func init() { registerReplay("c12ascii", checkC12ASCII) }

func checkC12ASCII(c c12ASCII) (ci caseInfo, err error) {
	s := string(c.Bytes)
	sevenBit := true
	for _, b := range c.Bytes {
		if b >= 0x80 {
			sevenBit = false
		}
	}
	ci.Nontrivial = len(s) > 0
	ci.label("ascii:7bit=%v", sevenBit)
	var item ast.ItemNode
	panicked, pmsg := try(func() {
		if c.ViaFill {
			item = ast.NewASCIINodeVariable("x", 0, -1).FillVariables(map[string]interface{}{"x": s})
		} else {
			item = ast.NewASCIINode(s)
		}
	})
	if !sevenBit {
		if !panicked {
			return ci, fmt.Errorf("ASCII item accepted the non-7-bit string %x; printed %q", []byte(c.Bytes), clipStr(itemString(item), 100))
		}
		return ci, nil
	}
	if panicked {
		return ci, fmt.Errorf("ASCII item refused the 7-bit string %q: %s", s, pmsg)
	}
	printed := itemString(item)
	pn, rerr := model.ReadItem(printed)
	if rerr != nil {
		return ci, fmt.Errorf("ASCII %q: printed form %q is unreadable: %v", s, clipStr(printed, 120), rerr)
	}
	if pn.Kind != model.A || pn.AVar != "" || string(pn.Str) != s {
		return ci, fmt.Errorf("ASCII %q: printed form %q denotes %q", s, clipStr(printed, 120), pn.Str)
	}
	want, _, _ := model.RefEncodeItem(&model.Node{Kind: model.A, Str: s}, nil)
	if got := item.ToBytes(); !bytes.Equal(got, want) {
		return ci, fmt.Errorf("ASCII %q: encoded as %x, want %x", s, got, want)
	}
	if item.Size() != len(s) {
		return ci, fmt.Errorf("ASCII %q: Size() = %d", s, item.Size())
	}
	if err := storedInList(fmt.Sprintf("ASCII %q", s), item, want, len(s)); err != nil {
		return ci, err
	}
	return ci, nil
}

func TestC12ASCII(t *testing.T) {
	rapidProp(t, "C12", "c12ascii", func(t *rapid.T) c12ASCII {
		c := c12ASCII{ViaFill: rapid.Bool().Draw(t, "viaFill")}
		switch rapid.IntRange(0, 3).Draw(t, "class") {
		case 0:
			c.Bytes = []byte(genASCII(t, 10))
		case 1:
			c.Bytes = rapid.SliceOfN(rapid.Byte(), 0, 8).Draw(t, "bytes")
		case 2:
			c.Bytes = []byte(rapid.SampledFrom([]string{"é", "a\u0080", "\xff", "a\x80b", "日本", " ", "\x7f", "\x00", "a\xc3", "\xc3\xa0",
				"\u0100", "a\u0101b", "\u0141", "\u4e00", "\u0800", "\U00010000", "\U0001F600", "\u017f", "\u0131", "\u2000", "\ufeff"}).Draw(t, "utf"))
			if rapid.Bool().Draw(t, "randomRune") {
				c.Bytes = []byte("k" + string(rune(rapid.IntRange(0x80, 0x10FFFF).Draw(t, "rune"))))
			}
		default:
			c.Bytes = []byte(genASCII(t, 5) + string(rune(rapid.IntRange(0x7E, 0x82).Draw(t, "edge"))))
		}
		return c
	}, checkC12ASCII)
}

// ---------------------------------------------------------------------------
// variable names, duplicates, ellipsis placement

// validVarName: the independent statement of the documented grammar:
// a letter or underscore, then letters/digits/underscores, then any number of [digits].
func validVarName(s string) bool {
	if s == "" || !isNameStartByte(s[0]) {
		return false
	}
	i := 1
	for i < len(s) && (isNameStartByte(s[i]) || (s[i] >= '0' && s[i] <= '9')) {
		i++
	}
	for i < len(s) {
		if s[i] != '[' {
			return false
		}
		j := i + 1
		for j < len(s) && s[j] >= '0' && s[j] <= '9' {
			j++
		}
		if j == i+1 || j >= len(s) || s[j] != ']' {
			return false
		}
		i = j + 1
	}
	return true
}

func isNameStartByte(c byte) bool {
	return c == '_' || (c >= 'a' && c <= 'z') || (c >= 'A' && c <= 'Z')
}

type c12Name struct {
	Site string `json:"site"` // I2 U4 F8 B BOOLEAN A L
	Name string `json:"name"`
	Dup  int    `json:"dup"` // 0 none, 1 same name twice in the node, 2 same name in a sibling item of an enclosing list
}

func init() { registerReplay("c12name", checkC12Name) }

func checkC12Name(c c12Name) (ci caseInfo, err error) {
	valid := validVarName(c.Name)
	if c.Site == model.L && model.IsEllipsisName(c.Name) {
		valid = true // an ellipsis after the first entry of a list is a legal list variable
	}
	ci.label("name:valid=%v/dup=%d", valid, c.Dup)
	ci.Nontrivial = true
	ci.label("site:" + c.Site)
	if c.Site == model.B && strings.HasPrefix(c.Name, "0b") {
		ci.Nontrivial = false
		return ci, nil // a binary-string literal, not a name
	}
	build := func() ast.ItemNode {
		one := func(name string) ast.ItemNode {
			switch c.Site {
			case model.A:
				return ast.NewASCIINodeVariable(name, 0, -1)
			case model.L:
				return ast.NewListNode(ast.NewBinaryNode(1), name)
			default:
				return factory(c.Site, name)
			}
		}
		switch c.Dup {
		case 1:
			switch c.Site {
			case model.A:
				return ast.NewListNode(one(c.Name), one(c.Name))
			case model.L:
				return ast.NewListNode(ast.NewBinaryNode(1), c.Name, c.Name)
			default:
				return factory(c.Site, c.Name, c.Name)
			}
		case 2:
			return ast.NewListNode(ast.NewListNode(one(c.Name)), ast.NewUintNode(1, 5, c.Name))
		case 3:
			// the duplicate comes into being through a fill: variable "zz9" is renamed to the name
			return ast.NewListNode(ast.NewListNode(one(c.Name)), ast.NewUintNode(1, 5, "zz9")).FillVariables(map[string]interface{}{"zz9": c.Name})
		case 5:
			// ... or inside one item: its second variable is renamed to the name of its first
			switch c.Site {
			case model.A, model.L:
				return ast.NewListNode(one(c.Name), "zz9").FillVariables(map[string]interface{}{"zz9": c.Name})
			default:
				return factory(c.Site, c.Name, "zz9", fillerFor(c.Site, 0)).FillVariables(map[string]interface{}{"zz9": c.Name})
			}
		case 4:
			// ... or through an item value that brings the name along
			return ast.NewListNode(ast.NewListNode(ast.NewBinaryNode(1), "zz9"), one(c.Name)).FillVariables(map[string]interface{}{"zz9": ast.NewListNode(ast.NewIntNode(2, c.Name))})
		}
		return one(c.Name)
	}
	var item ast.ItemNode
	panicked, pmsg := try(func() { item = build() })
	accept := valid && c.Dup == 0
	if accept {
		if panicked {
			return ci, fmt.Errorf("valid variable name %q refused at site %s: %s", c.Name, c.Site, pmsg)
		}
		if vs := item.Variables(); len(vs) != 1 || vs[0] != c.Name {
			return ci, fmt.Errorf("name %q at site %s: Variables() = %q", c.Name, c.Site, vs)
		}
		shown := c.Name
		if model.IsEllipsisName(shown) {
			shown = "..." // every ellipsis is printed as three dots
		}
		if !strings.Contains(itemString(item), shown) {
			return ci, fmt.Errorf("name %q does not appear in the printed form %q", c.Name, itemString(item))
		}
		if len(item.ToBytes()) != 0 {
			return ci, fmt.Errorf("item with variable %q encodes to bytes", c.Name)
		}
		return ci, nil
	}
	if !panicked {
		why := "malformed"
		if valid {
			why = "duplicate"
		}
		return ci, fmt.Errorf("%s variable name %q accepted at site %s (dup mode %d): %q", why, c.Name, c.Site, c.Dup, clipStr(itemString(item), 150))
	}
	return ci, nil
}

var nearNames = []string{
	"", "a", "_", "A1", "a_b", "a[0]", "a[12][3]", "_[0]", "x9[007]",
	"1a", "9", "a-b", "a.b", "a b", " a", "a ", "a\n", "a\t", "a[", "a[]", "a[1", "a]", "a[x]", "a[1]b", "a[1] [2]", "a[-1]", "a[1.5]", "a[[1]]",
	"x[+1]", "x[-0]", "x[+0]", "x[ 1]", "x[1 ]", "x[0x1]", "x[1e1]", "x[01]", "x[1_0]", "...[+1]", "...[-0]", "x[１]",
	"é", "aé", "名前", "a ", "a\x00", "...", "...[0]", "....", "..", ".", "a...", "...a", "[0]", "a[0]...", "<a>", "a>", "\"a\"", "a//b",
}

func genName(t *rapid.T) string {
	switch rapid.IntRange(0, 2).Draw(t, "nameClass") {
	case 0:
		return rapid.SampledFrom(nearNames).Draw(t, "near")
	case 1:
		return newNamer(false, true).draw(t)
	}
	// a valid name with one character replaced / inserted
	base := []byte(newNamer(false, true).draw(t))
	i := rapid.IntRange(0, len(base)).Draw(t, "at")
	ch := byte(rapid.SampledFrom([]int{' ', '-', '+', '.', '[', ']', '0', '_', 'z', 0x80, '\n', '"', '<', '/', 'x', 'e'}).Draw(t, "ch"))
	if i < len(base) && rapid.Bool().Draw(t, "replace") {
		base[i] = ch
		return string(base)
	}
	return string(base[:i]) + string(ch) + string(base[i:])
}

func TestC12Name(t *testing.T) {
	rapidProp(t, "C12", "c12name", func(t *rapid.T) c12Name {
		return c12Name{
			Site: rapid.SampledFrom([]string{model.I2, model.U4, model.F8, model.B, model.BOOLEAN, model.A, model.L, model.I8, model.F4, model.U1}).Draw(t, "site"),
			Name: genName(t),
			Dup:  rapid.SampledFrom([]int{0, 0, 0, 1, 2, 3, 4, 5}).Draw(t, "dup"),
		}
	}, checkC12Name)
}

// lists: ellipsis placement and multiplicity

type c12List struct {
	Entries []string `json:"entries"` // "item" for a value item, otherwise a name / ellipsis spelling
}

func init() { registerReplay("c12list", checkC12List) }

func checkC12List(c c12List) (ci caseInfo, err error) {
	ci.Nontrivial = true
	args := make([]interface{}, len(c.Entries))
	ellipses, bad, leading := 0, false, false
	seen := map[string]bool{}
	var wantVars []string
	for i, e := range c.Entries {
		if e == "item" {
			args[i] = ast.NewBooleanNode(true)
			continue
		}
		args[i] = e
		switch {
		case model.IsEllipsisName(e):
			ellipses++
			if i == 0 {
				leading = true
			}
		case !validVarName(e):
			bad = true
		}
		if seen[e] {
			bad = true
		}
		seen[e] = true
		wantVars = append(wantVars, e)
	}
	refuse := bad || leading || ellipses > 1
	ci.label("list:refuse=%v/ellipses=%d/leading=%v", refuse, ellipses, leading)
	var item ast.ItemNode
	panicked, pmsg := try(func() { item = ast.NewListNode(args...) })
	if refuse {
		if !panicked {
			return ci, fmt.Errorf("list %q accepted (leading ellipsis=%v, ellipses=%d, malformed/duplicate=%v): %q", c.Entries, leading, ellipses, bad, clipStr(itemString(item), 150))
		}
		return ci, nil
	}
	if panicked {
		return ci, fmt.Errorf("well-formed list %q refused: %s", c.Entries, pmsg)
	}
	if got := item.Variables(); !sameStrings(got, wantVars) {
		return ci, fmt.Errorf("list %q: Variables() = %q, want %q", c.Entries, got, wantVars)
	}
	if item.Size() != len(c.Entries) {
		return ci, fmt.Errorf("list %q: Size() = %d", c.Entries, item.Size())
	}
	return ci, nil
}

func TestC12List(t *testing.T) {
	rapidProp(t, "C12", "c12list", func(t *rapid.T) c12List {
		n := rapid.IntRange(0, 5).Draw(t, "n")
		var c c12List
		for i := 0; i < n; i++ {
			c.Entries = append(c.Entries, rapid.SampledFrom([]string{"item", "item", "a", "b", "c[0]", "...", "...[0]", "...[1]", "...[12]", "....", "...[x]", "...[]", "... ", "a b"}).Draw(t, "entry"))
		}
		return c
	}, checkC12List)
}

// ---------------------------------------------------------------------------
// messages

type c12Msg struct {
	Ctor     string `json:"ctor"` // data hsms setsession setwait
	Name     string `json:"name"`
	Stream   int    `json:"stream"`
	Function int    `json:"function"`
	Wait     int    `json:"wait"`
	Dir      string `json:"dir"`
	Session  int    `json:"session"`
	WithVar  bool   `json:"with_var"`
}

func init() { registerReplay("c12msg", checkC12Msg) }

func checkC12Msg(c c12Msg) (ci caseInfo, err error) {
	ci.Nontrivial = true
	ci.label("msg:" + c.Ctor)
	nameOK := true
	for _, r := range c.Name {
		if unicode.IsSpace(r) {
			nameOK = false
		}
	}
	dirOK := c.Dir == "H->E" || c.Dir == "H<-E" || c.Dir == "H<->E"
	valid := nameOK && dirOK && c.Stream >= 0 && c.Stream < 128 && c.Function >= 0 && c.Function < 256
	var item ast.ItemNode = ast.NewUintNode(2, 513)
	if c.WithVar {
		item = ast.NewUintNode(2, "v")
	}
	sys := []byte{1, 2, 3, 4}
	var msg *ast.DataMessage
	var panicked bool
	var pmsg string
	wantWait, wantSession := c.Wait, -1
	switch c.Ctor {
	case "data":
		valid = valid && c.Wait >= 0 && c.Wait <= 2 && !(c.Wait == 1 && c.Function%2 == 0)
		panicked, pmsg = try(func() { msg = ast.NewDataMessage(c.Name, c.Stream, c.Function, c.Wait, c.Dir, item) })
	case "hsms":
		valid = valid && (c.Wait == 0 || c.Wait == 1) && !(c.Wait == 1 && c.Function%2 == 0) && c.Session >= 0 && c.Session <= 65535 && !c.WithVar
		wantSession = c.Session
		panicked, pmsg = try(func() {
			msg = ast.NewHSMSDataMessage(c.Name, c.Stream, c.Function, c.Wait, c.Dir, item, c.Session, sys)
		})
	case "setsession":
		// a valid base message, then an arbitrary session id
		base := ast.NewDataMessage("n", 1, 1, 2, "H->E", item)
		valid = c.Session >= -1 && c.Session <= 65535
		wantSession, wantWait = c.Session, 2
		c2 := c
		c2.Name, c2.Stream, c2.Function, c2.Dir = "n", 1, 1, "H->E"
		c = c2
		panicked, pmsg = try(func() { msg = base.SetSessionIDAndSystemBytes(c.Session, sys) })
	case "setwait":
		// optional wait bit resolved on an even / odd function
		fn := c.Function & 0xFF
		base := ast.NewDataMessage("n", 1, fn, 2, "H->E", item)
		w := c.Wait == 1
		valid = !(w && fn%2 == 0)
		wantWait = 0
		if w {
			wantWait = 1
		}
		c2 := c
		c2.Name, c2.Stream, c2.Function, c2.Dir = "n", 1, fn, "H->E"
		c = c2
		panicked, pmsg = try(func() { msg = base.SetWaitBit(w) })
	}
	ci.label("msg:valid=%v", valid)
	if !valid {
		if !panicked {
			return ci, fmt.Errorf("%s(%+v) accepted an invalid argument: header %q session %d", c.Ctor, c, msg.Header(), msg.SessionID())
		}
		return ci, nil
	}
	if panicked {
		return ci, fmt.Errorf("%s(%+v) refused valid arguments: %s", c.Ctor, c, pmsg)
	}
	ws := []string{"false", "true", "optional"}[wantWait]
	if msg.Name() != c.Name || msg.StreamCode() != c.Stream || msg.FunctionCode() != c.Function || msg.WaitBit() != ws || msg.Direction() != c.Dir || msg.SessionID() != wantSession {
		return ci, fmt.Errorf("%s(%+v): stored name=%q S%dF%d wait=%s dir=%s session=%d", c.Ctor, c, msg.Name(), msg.StreamCode(), msg.FunctionCode(), msg.WaitBit(), msg.Direction(), msg.SessionID())
	}
	if wantSession != -1 && wantWait != 2 && !c.WithVar {
		want, _, _ := model.RefEncodeMsg(&model.Msg{Session: wantSession, Stream: c.Stream, Function: c.Function, Wait: wantWait == 1, System: [4]byte{1, 2, 3, 4},
			Item: &model.Node{Kind: model.U2, Elems: []model.Elem{{U: 513}}}}, nil)
		if got := msg.ToBytes(); !bytes.Equal(got, want) {
			return ci, fmt.Errorf("%s(%+v): bytes %x, want %x", c.Ctor, c, got, want)
		}
	}
	return ci, nil
}

var unicodeSpaces = []rune{' ', '\t', '\n', '\v', '\f', '\r', 0x85, 0xA0, 0x1680, 0x2000, 0x2001, 0x2005, 0x200A, 0x2028, 0x2029, 0x202F, 0x205F, 0x3000}

func TestC12Msg(t *testing.T) {
	rapidProp(t, "C12", "c12msg", func(t *rapid.T) c12Msg {
		c := c12Msg{
			Ctor:     rapid.SampledFrom([]string{"data", "hsms", "setsession", "setwait"}).Draw(t, "ctor"),
			Stream:   rapid.SampledFrom([]int{0, 1, 64, 126, 127, 128, 129, 255, 256, -1, -128, 1 << 31, math.MaxInt64, math.MinInt64}).Draw(t, "stream"),
			Function: rapid.SampledFrom([]int{0, 1, 2, 3, 254, 255, 256, 257, 511, -1, -2, -255, 1 << 32, math.MaxInt64}).Draw(t, "function"),
			Wait:     rapid.SampledFrom([]int{0, 1, 2, 3, -1, 256}).Draw(t, "wait"),
			Dir:      rapid.SampledFrom([]string{"H->E", "H<-E", "H<->E", "", "h->e", "H->E ", " H->E", "E->H", "H<>E", "H<--E"}).Draw(t, "dir"),
			Session:  rapid.SampledFrom([]int{-2, -1, 0, 1, 255, 256, 65534, 65535, 65536, 65537, 1 << 31, -65536, math.MaxInt64, math.MinInt64}).Draw(t, "session"),
			WithVar:  rapid.IntRange(0, 4).Draw(t, "withVar") == 4,
		}
		// mostly keep the other fields valid so that single faults are visible
		if rapid.IntRange(0, 3).Draw(t, "singleFault") != 3 {
			keep := rapid.IntRange(0, 5).Draw(t, "faultField")
			if keep != 0 {
				c.Stream = rapid.IntRange(0, 127).Draw(t, "okStream")
			}
			if keep != 1 {
				c.Function = rapid.IntRange(0, 255).Draw(t, "okFunction")
			}
			if keep != 2 {
				c.Wait = rapid.IntRange(0, 2).Draw(t, "okWait")
				if c.Wait == 1 && c.Function%2 == 0 && keep != 1 {
					c.Wait = 0
				}
			}
			if keep != 3 {
				c.Dir = rapid.SampledFrom([]string{"H->E", "H<-E", "H<->E"}).Draw(t, "okDir")
			}
			if keep != 4 {
				c.Session = rapid.IntRange(0, 65535).Draw(t, "okSession")
			}
		}
		name := genMsgName(t)
		if rapid.IntRange(0, 2).Draw(t, "spaceInName") == 2 {
			rs := []rune(name)
			i := rapid.IntRange(0, len(rs)).Draw(t, "spaceAt")
			sp := rapid.SampledFrom(unicodeSpaces).Draw(t, "space")
			name = string(rs[:i]) + string(sp) + string(rs[i:])
		}
		c.Name = name
		return c
	}, checkC12Msg)
}
