package props

import (
	"bytes"
	"fmt"
	"math"
	"testing"

	"verifharness/model"

	"github.com/wolimst/lib-secs2-hsms-go/pkg/ast"
	"pgregory.net/rapid"
)

// C09 - FillVariables is pure substitution and composes.

type c09Case struct {
	Tree    *model.Node `json:"tree"`
	Binds   []Assign    `json:"binds"`
	Steps   []int       `json:"steps"` // Steps[i]: index of the partial fill that carries Binds[i]
	Variant int         `json:"variant"`
	Hdr     *Hdr        `json:"hdr,omitempty"`
}

func init() { registerReplay("c09", checkC09) }

// itemObservations gathers what C09 compares.
type itemObs struct {
	str   string
	vars  []string
	size  int
	bytes []byte
}

func observeItem(it ast.ItemNode) itemObs {
	return itemObs{str: itemString(it), vars: it.Variables(), size: it.Size(), bytes: it.ToBytes()}
}

func (a itemObs) diff(b itemObs) string {
	switch {
	case a.str != b.str:
		return fmt.Sprintf("String():\n got: %s\nwant: %s", clipStr(a.str, 400), clipStr(b.str, 400))
	case !sameStrings(a.vars, b.vars):
		return fmt.Sprintf("Variables(): got %q want %q", a.vars, b.vars)
	case a.size != b.size:
		return fmt.Sprintf("Size(): got %d want %d", a.size, b.size)
	case !bytes.Equal(a.bytes, b.bytes):
		return "ToBytes(): " + firstDiff(a.bytes, b.bytes)
	}
	return ""
}

func checkC09(c c09Case) (ci caseInfo, err error) {
	tmplVars := map[string]bool{}
	for _, v := range c.Tree.Variables() {
		tmplVars[v] = true
	}
	hits, pure := 0, true
	for _, b := range c.Binds {
		if tmplVars[b.Name] {
			hits++
		}
		if b.Rename != "" || (b.Node != nil && b.Node.HasVariables()) {
			pure = false
		}
	}
	hasEllipsis := len(ellipsisNames(c.Tree.Variables())) > 0
	ci.Nontrivial = hits >= 1 && (len(tmplVars) >= 2 || c.Tree.Depth() >= 2)
	ci.label("hits>=1:%v", hits >= 1)

	tmpl := buildItem(c.Tree, c.Variant)
	if c.Variant%3 == 0 {
		touchItem(tmpl) // observers first: nothing they compute may influence later fills
		ci.label("template-observed-before-fill")
	}
	fill := assignMap(c.Binds, c.Variant)
	keysBefore := len(fill)

	// expectation: direct construction with the values in place
	var want ast.ItemNode
	expectRefusal := ""
	wantModel, serr := substModel(c.Tree, bindMap(c.Binds))
	if serr != nil {
		expectRefusal = serr.Error()
	} else if p, msg := try(func() { want = buildItem(wantModel, c.Variant) }); p {
		expectRefusal = "direct construction panics: " + msg
	}

	var got ast.ItemNode
	panicked, pmsg := try(func() { got = tmpl.FillVariables(fill) })
	if len(fill) != keysBefore {
		return ci, fmt.Errorf("FillVariables changed the caller's map")
	}
	if expectRefusal != "" {
		ci.label("refused")
		if !panicked {
			return ci, fmt.Errorf("fill should be refused exactly as the constructor refuses it (%s) but returned %s", expectRefusal, clipStr(itemString(got), 300))
		}
		return ci, nil
	}
	if panicked {
		return ci, fmt.Errorf("fill refused (%s) although the direct construction succeeds: template %s, bindings %v", pmsg, clipStr(itemString(tmpl), 300), bindNames(c.Binds))
	}
	ci.label("filled")
	gotObs, wantObs := observeItem(got), observeItem(want)
	if d := gotObs.diff(wantObs); d != "" {
		return ci, fmt.Errorf("filled item differs from the directly constructed one, %s", d)
	}
	// unmentioned variables remain, in their original order
	var remain []string
	bound := bindMap(c.Binds)
	for _, v := range c.Tree.Variables() {
		if _, ok := bound[v]; !ok {
			remain = append(remain, v)
		}
	}
	if pure && !sameStrings(gotObs.vars, remain) && !(len(gotObs.vars) == 0 && len(remain) == 0) {
		return ci, fmt.Errorf("unmentioned variables: got %q want %q (original order)", gotObs.vars, remain)
	}

	// composition: several partial fills == one fill with the union (ellipsis-free templates, variable-free values)
	if pure && !hasEllipsis && len(c.Binds) > 0 {
		nsteps := 0
		for _, s := range c.Steps {
			if s+1 > nsteps {
				nsteps = s + 1
			}
		}
		cur := tmpl
		acc := []Assign{}
		for s := 0; s < nsteps; s++ {
			var part []Assign
			for i, b := range c.Binds {
				if i < len(c.Steps) && c.Steps[i] == s {
					part = append(part, b)
				}
			}
			acc = append(acc, part...)
			if c.Variant%3 == 0 {
				touchItem(cur)
			}
			if p, msg := try(func() { cur = cur.FillVariables(assignMap(part, c.Variant)) }); p {
				return ci, fmt.Errorf("partial fill %d/%d with %v refused (%s) although the one-shot fill succeeds", s+1, nsteps, bindNames(part), msg)
			}
			mid, merr := substModel(c.Tree, bindMap(acc))
			if merr != nil {
				return ci, fmt.Errorf("harness: %v", merr)
			}
			if d := observeItem(cur).diff(observeItem(buildItem(mid, c.Variant))); d != "" {
				return ci, fmt.Errorf("after partial fill %d/%d the item differs from direct construction, %s", s+1, nsteps, d)
			}
		}
		if d := observeItem(cur).diff(gotObs); d != "" {
			return ci, fmt.Errorf("filling in %d steps differs from filling once with the union, %s", nsteps, d)
		}
		ci.label("composition:steps=%d", nsteps)
	}

	// message level: the header fields are kept and a completed message encodes like the direct one
	if c.Hdr != nil {
		h := *c.Hdr
		m1 := ast.NewDataMessage(h.Name, h.Stream, h.Function, h.Wait, h.Dir, tmpl)
		m2 := ast.NewDataMessage(h.Name, h.Stream, h.Function, h.Wait, h.Dir, want)
		if c.Variant%2 == 1 {
			// the other producers may come BEFORE the fill: the fill must keep what they set
			m1 = m1.SetSessionIDAndSystemBytes(h.Session, h.System)
			m2 = m2.SetSessionIDAndSystemBytes(h.Session, h.System)
			if c.Variant%4 == 3 {
				m1, m2 = m1.SetWaitBit(h.Wait == 1), m2.SetWaitBit(h.Wait == 1)
			}
			ci.label("message:producers-before-fill")
		}
		m1 = m1.FillVariables(fill)
		if m1.SessionID() != m2.SessionID() || !bytes.Equal(m1.SystemBytes(), m2.SystemBytes()) || m1.WaitBit() != m2.WaitBit() {
			return ci, fmt.Errorf("message fill changed header data: session %d system %x wait %s, direct construction has session %d system %x wait %s",
				m1.SessionID(), m1.SystemBytes(), m1.WaitBit(), m2.SessionID(), m2.SystemBytes(), m2.WaitBit())
		}
		if m1.String() != m2.String() || !sameStrings(m1.Variables(), m2.Variables()) {
			return ci, fmt.Errorf("message fill differs from direct construction:\n got: %s\nwant: %s", clipStr(m1.String(), 300), clipStr(m2.String(), 300))
		}
		c1 := completeMessage(m1, h, nil, 1)
		c2 := completeMessage(m2, h, nil, 2)
		if !bytes.Equal(c1.ToBytes(), c2.ToBytes()) {
			return ci, fmt.Errorf("completed messages encode differently: %s", firstDiff(c1.ToBytes(), c2.ToBytes()))
		}
		if len(gotObs.vars) == 0 && h.Session != -1 {
			ref, _, _ := model.RefEncodeMsg(modelMsg(Hdr{Stream: h.Stream, Function: h.Function, Wait: boolToWait(h.Wait == 1), Session: h.Session, System: h.System}, wantModel), nil)
			if !bytes.Equal(c1.ToBytes(), ref) {
				return ci, fmt.Errorf("completed message bytes differ from the reference encoding: %s", firstDiff(c1.ToBytes(), ref))
			}
		}
		ci.label("message")
	}
	return ci, nil
}

func boolToWait(b bool) int {
	if b {
		return 1
	}
	return 0
}

func bindNames(as []Assign) []string {
	out := make([]string, len(as))
	for i, a := range as {
		out[i] = a.Name
	}
	return out
}

var outOfDomainF4Toggle bool

func outOfDomainElem(kind string) (model.Elem, bool) {
	switch kind {
	case model.I1:
		return model.Elem{I: 128}, true
	case model.I2:
		return model.Elem{I: -32769}, true
	case model.I4:
		return model.Elem{I: 1 << 31}, true
	case model.U1, model.B:
		return model.Elem{U: 256}, true
	case model.U2:
		return model.Elem{U: 65536}, true
	case model.U4:
		return model.Elem{U: 1 << 32}, true
	case model.F4:
		// alternately far outside and just outside (the next float64 after MaxFloat32)
		outOfDomainF4Toggle = !outOfDomainF4Toggle
		if outOfDomainF4Toggle {
			return model.Elem{F: math.Float64bits(math.Nextafter(math.MaxFloat32, math.Inf(1)))}, true
		}
		return model.Elem{F: math.Float64bits(-1e39)}, true
	case model.F8:
		return model.Elem{F: math.Float64bits(math.Inf(1))}, true
	}
	return model.Elem{}, false
}

func genC09(t *rapid.T) c09Case {
	c := c09Case{Variant: rapid.IntRange(0, 11).Draw(t, "variant")}
	nm := newNamer(false, true)
	withEllipsis := rapid.IntRange(0, 3).Draw(t, "withEllipsis") == 3
	c.Tree = genTree(t, treeOpts{Vars: true, Ellipsis: withEllipsis, Suffix: true, NoDeep: true, VarPct: 45, MaxDepth: 4}, nm)
	numberEllipses(c.Tree)
	step := func() int { return rapid.IntRange(0, 3).Draw(t, "step") }
	broughtKeys := 0
	add := func(a Assign) {
		c.Binds = append(c.Binds, a)
		c.Steps = append(c.Steps, step())
	}
	c.Tree.Walk(func(x *model.Node) {
		if x.Bulk != nil {
			return
		}
		choose := func() int { return rapid.SampledFrom([]int{0, 0, 0, 0, 0, 0, 1, 1, 2, 3, 4}).Draw(t, "bindClass") }
		switch x.Kind {
		case model.L:
			for _, ch := range x.Children {
				if ch.Node != nil || model.IsEllipsisName(ch.Var) {
					continue
				}
				switch rapid.SampledFrom([]int{0, 0, 0, 1, 3, 4, 4, 4, 0, 0, 3, 4, 4, 5}).Draw(t, "itemBindClass") {
				case 5:
					add(Assign{Name: ch.Var, Kind: "item", Alien: rapid.SampledFrom(alienTypes).Draw(t, "alien")})
				case 0:
					add(Assign{Name: ch.Var, Kind: "item", Node: genTree(t, treeOpts{NoDeep: true, MaxDepth: 2, MaxElems: 3}, nm)})
				case 3:
					add(Assign{Name: ch.Var, Kind: "item", Rename: nm.draw(t)})
				case 4:
					val := genTree(t, treeOpts{Vars: true, NoDeep: true, MaxDepth: 2, MaxElems: 3, VarPct: 50}, nm)
					if inner := singleFills(val); len(inner) > 0 && rapid.IntRange(0, 2).Draw(t, "reusePlaceholderName") == 2 {
						// the inserted item has a variable with the very name of the placeholder it replaces (legal: the
						// placeholder is gone afterwards, the list of names may even look unchanged)
						renameVar(val, inner[rapid.IntRange(0, len(inner)-1).Draw(t, "whichInner")].Name, ch.Var)
					}
					add(Assign{Name: ch.Var, Kind: "item", Node: val})
					// the same map may also name variables that the inserted value brings along: substitution is
					// simultaneous on the template, so the value "is inserted as is" and those keys hit nothing
					if rapid.Bool().Draw(t, "keyForBroughtVariable") {
						for _, inner := range singleFills(val) {
							if inner.Name != ch.Var && rapid.Bool().Draw(t, "thisOne") {
								add(inner)
								broughtKeys++
							}
						}
					}
				}
			}
		case model.A:
			if x.AVar == nil {
				return
			}
			switch choose() {
			case 0, 3, 4:
				lo, hi := x.AVar.Min, x.AVar.Max
				if hi == -1 || hi > lo+40 {
					hi = lo + 6
				}
				n := rapid.IntRange(lo, hi).Draw(t, "slen")
				s := genASCII(t, n)
				for len(s) < n {
					s += "p"
				}
				add(Assign{Name: x.AVar.Name, Kind: model.A, Str: &s})
			case 2:
				if rapid.IntRange(0, 2).Draw(t, "alienValue") == 2 {
					add(Assign{Name: x.AVar.Name, Kind: model.A, Alien: rapid.SampledFrom(alienTypes).Draw(t, "alien")})
					return
				}
				// outside the declared bounds (when there are bounds) or non-ASCII
				var s string
				switch {
				case x.AVar.Min > 0:
					s = string(bytes.Repeat([]byte{'q'}, x.AVar.Min-1))
				case x.AVar.Max != -1 && x.AVar.Max < 100000:
					s = string(bytes.Repeat([]byte{'q'}, x.AVar.Max+1))
				default:
					s = "café"
				}
				add(Assign{Name: x.AVar.Name, Kind: model.A, Str: &s})
			}
		default:
			for _, e := range x.Elems {
				if e.Var == "" {
					continue
				}
				switch choose() {
				case 0, 4:
					v := genElem(t, x.Kind)
					add(Assign{Name: e.Var, Kind: x.Kind, Elem: &v})
				case 2:
					if rapid.IntRange(0, 2).Draw(t, "alienValue") == 2 {
						add(Assign{Name: e.Var, Kind: x.Kind, Alien: rapid.SampledFrom(alienTypes).Draw(t, "alien")})
					} else if v, ok := outOfDomainElem(x.Kind); ok {
						add(Assign{Name: e.Var, Kind: x.Kind, Elem: &v})
					}
				case 3:
					add(Assign{Name: e.Var, Kind: x.Kind, Rename: nm.draw(t)})
				}
			}
		}
	})
	// unknown keys are ignored
	for i := rapid.IntRange(0, 2).Draw(t, "unknownKeys"); i > 0; i-- {
		v := model.Elem{U: uint64(rapid.SampledFrom([]int{1, 0, 200, 7}).Draw(t, "unknownVal"))}
		name := nm.draw(t)
		have := c.Tree.Variables()
		switch k := rapid.IntRange(0, 9).Draw(t, "unknownKeyForm"); {
		case k == 7:
			// shaped like an ellipsis, but the template has no such ellipsis: an unknown key like any other
			name = "...[57]"
			if !withEllipsis && rapid.Bool().Draw(t, "plainEllipsisKey") {
				name = "..."
			}
		case k == 9:
			name = "" // no variable has the empty name
		case k == 8:
			name = " "
		case k >= 5 && len(have) > 0:
			// a near miss of a name the template has: longer, shorter, other letter case, indexed
			base := rapid.SampledFrom(have).Draw(t, "nearName")
			if !model.IsEllipsisName(base) {
				cand := []string{base + "_", base + "0", base + "[0]", swapLetterCase(base)}
				if len(base) > 1 {
					cand = append(cand, base[:len(base)-1], base[1:])
				}
				name = rapid.SampledFrom(cand).Draw(t, "nearForm")
				for _, h := range have {
					if h == name {
						name = nm.draw(t)
					}
				}
			}
		}
		switch rapid.IntRange(0, 4).Draw(t, "unknownValKind") {
		case 4:
			add(Assign{Name: name, Kind: model.U1, Alien: rapid.SampledFrom(alienTypes).Draw(t, "alien")}) // never looked at
		case 3:
			str := "zz"
			add(Assign{Name: name, Kind: model.A, Str: &str})
		default:
			add(Assign{Name: name, Kind: model.U1, Elem: &v})
		}
	}
	if rapid.IntRange(0, 3).Draw(t, "asMessage") == 3 {
		h := genHdr(t, false)
		c.Hdr = &h
	}
	if broughtKeys > 0 {
		stats.labelOnly("key-names-variable-brought-by-inserted-value", 1)
	}
	return c
}

func TestC09(t *testing.T) {
	rapidProp(t, "C09", "c09", genC09, checkC09)
}

func swapLetterCase(s string) string {
	b := []byte(s)
	for i, ch := range b {
		switch {
		case ch >= 'a' && ch <= 'z':
			b[i] = ch - 32
		case ch >= 'A' && ch <= 'Z':
			b[i] = ch + 32
		}
	}
	return string(b)
}

// renameVar renames one variable of a model tree (element, ASCII or item variable).
func renameVar(n *model.Node, from, to string) {
	n.Walk(func(x *model.Node) {
		for i := range x.Elems {
			if x.Elems[i].Var == from {
				x.Elems[i].Var = to
			}
		}
		if x.AVar != nil && x.AVar.Name == from {
			x.AVar.Name = to
		}
		for i := range x.Children {
			if x.Children[i].Node == nil && x.Children[i].Var == from {
				x.Children[i].Var = to
			}
		}
	})
}
