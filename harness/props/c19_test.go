package props

import (
	"fmt"
	"strings"
	"testing"

	"verifharness/model"

	"github.com/wolimst/lib-secs2-hsms-go/pkg/ast"
	"github.com/wolimst/lib-secs2-hsms-go/pkg/parser/sml"
	"pgregory.net/rapid"
)

// C19 - messages in one SML text are parsed independently:
// Parse(t1 + sep + t2 ...) == Parse(t1) ++ Parse(t2) ++ ...

type c19Case struct {
	Texts []string `json:"texts"`
	Seps  []string `json:"seps"` // Seps[i] joins Texts[i] and Texts[i+1]
}

func init() { registerReplay("c19", checkC19) }

func sameMessage(a, b *ast.DataMessage) string {
	switch {
	case a.Name() != b.Name() || a.StreamCode() != b.StreamCode() || a.FunctionCode() != b.FunctionCode() || a.WaitBit() != b.WaitBit() || a.Direction() != b.Direction():
		return fmt.Sprintf("header %q vs %q", a.Header(), b.Header())
	case a.String() != b.String():
		return fmt.Sprintf("printed form:\n%s\nvs\n%s", clipStr(a.String(), 300), clipStr(b.String(), 300))
	case !sameStrings(a.Variables(), b.Variables()):
		return fmt.Sprintf("variables %q vs %q", a.Variables(), b.Variables())
	case a.SessionID() != b.SessionID():
		return "session id"
	}
	ca, erra := completeFromPrinted(a)
	cb, errb := completeFromPrinted(b)
	if erra != nil || errb != nil {
		return fmt.Sprintf("completion: %v / %v", erra, errb)
	}
	if (ca == nil) != (cb == nil) {
		return "only one of the two can be completed"
	}
	if ca != nil && string(ca.ToBytes()) != string(cb.ToBytes()) {
		return "bytes once completed: " + firstDiff(ca.ToBytes(), cb.ToBytes())
	}
	return ""
}

func checkC19(c c19Case) (ci caseInfo, err error) {
	var wantMsgs []*ast.DataMessage
	var wantWarn []string
	var joined strings.Builder
	varSets := []map[string]bool{}
	ellipsisTexts := 0
	for i, txt := range c.Texts {
		msgs, errs, warns := sml.Parse(txt)
		if len(errs) > 0 {
			// the property speaks about accepted texts only
			ci.label("excluded:text-not-accepted")
			stats.exclude("text-not-accepted-alone")
			return ci, nil
		}
		prefix := joined.String()
		addLines := strings.Count(prefix, "\n")
		lastLine := prefix[strings.LastIndex(prefix, "\n")+1:]
		addCols := len([]rune(lastLine))
		for _, w := range warns {
			ds, perr := parseDiags([]string{w})
			if perr != nil {
				return ci, perr
			}
			d := ds[0]
			if d.line == 1 {
				d.col += addCols
			}
			d.line += addLines
			wantWarn = append(wantWarn, fmt.Sprintf("Ln %d, Col %d: %s", d.line, d.col, d.text))
		}
		wantMsgs = append(wantMsgs, msgs...)
		vs := map[string]bool{}
		hasE := false
		for _, m := range msgs {
			for _, v := range m.Variables() {
				if model.IsEllipsisName(v) {
					hasE = true
				} else {
					vs[v] = true
				}
			}
		}
		varSets = append(varSets, vs)
		if hasE {
			ellipsisTexts++
		}
		joined.WriteString(txt)
		if i < len(c.Texts)-1 {
			joined.WriteString(c.Seps[i%len(c.Seps)])
		}
	}
	shared := false
	for i := range varSets {
		for j := i + 1; j < len(varSets); j++ {
			for v := range varSets[i] {
				if varSets[j][v] {
					shared = true
				}
			}
		}
	}
	ci.Nontrivial = len(c.Texts) >= 2 && (shared || ellipsisTexts >= 2)
	if shared {
		ci.label("shared-variable-name")
	}
	if ellipsisTexts >= 2 {
		ci.label("ellipses-in-2+-texts")
	}
	all := joined.String()
	got, errs, warns := sml.Parse(all)
	if len(errs) > 0 {
		return ci, fmt.Errorf("each text is accepted alone but the concatenation is rejected: %q\n--- concatenation:\n%s", errs, clipStr(all, 900))
	}
	if len(got) != len(wantMsgs) {
		return ci, fmt.Errorf("the texts alone give %d message(s), the concatenation %d\n--- concatenation:\n%s", len(wantMsgs), len(got), clipStr(all, 900))
	}
	for i := range got {
		if d := sameMessage(got[i], wantMsgs[i]); d != "" {
			return ci, fmt.Errorf("message %d of the concatenation differs from the message parsed alone: %s\n--- concatenation:\n%s", i+1, d, clipStr(all, 900))
		}
	}
	if !sameStrings(warns, wantWarn) && !(len(warns) == 0 && len(wantWarn) == 0) {
		return ci, fmt.Errorf("warnings of the concatenation %q, expected (texts alone, positions shifted) %q\n--- concatenation:\n%s", warns, wantWarn, clipStr(all, 900))
	}
	if len(wantWarn) > 0 {
		ci.label("warnings-compared")
	}
	// and nothing is carried from one Parse call to the next either: the first text, parsed again after
	// everything above, still gives what it gave at first
	again, errs2, _ := sml.Parse(c.Texts[0])
	first, _, _ := sml.Parse(c.Texts[0])
	if len(errs2) > 0 || len(again) != len(first) {
		return ci, fmt.Errorf("parsing the first text again gives %d message(s), errors %q", len(again), errs2)
	}
	for i := range again {
		if i < len(wantMsgs) {
			if d := sameMessage(again[i], wantMsgs[i]); d != "" {
				return ci, fmt.Errorf("the first text parses differently after other texts have been parsed (state carried between calls): %s", d)
			}
		}
	}
	return ci, nil
}

func genC19(t *rapid.T) c19Case {
	n := rapid.IntRange(2, 4).Draw(t, "ntexts")
	var c c19Case
	var prevTree *model.Node
	if rapid.IntRange(0, 5).Draw(t, "echoLiteral") == 5 {
		// the very same literal spelling occurs in items of different types in different messages
		lit := rapid.SampledFrom([]string{"0.1", "3.14", "1e-3", "2.675", "0.3", "16777217", "1.1", "7", "0x7F", "100", "-1", "255"}).Draw(t, "echoLit")
		kinds := []string{"F4", "F8", "F4", "F8"}
		if !strings.ContainsAny(lit, ".e") {
			kinds = []string{"I1", "I8", "F4", "I2", "F8", "I4"}
			if !strings.HasPrefix(lit, "-") {
				kinds = append(kinds, "U1", "U8", "B", "A")
			}
		}
		for i := 0; i < n; i++ {
			k := rapid.SampledFrom(kinds).Draw(t, "echoKind")
			c.Texts = append(c.Texts, fmt.Sprintf("S%dF%d H->E\n<%s %s %s>\n.\n", i+1, 2*i+1, k, lit, lit))
			c.Seps = append(c.Seps, rapid.SampledFrom([]string{"", " ", "\n", " // c\n"}).Draw(t, "joiner"))
		}
		stats.labelOnly("echoed-literal-across-messages", 1)
		return c
	}
	if rapid.IntRange(0, 15).Draw(t, "longRun") == 15 {
		// a long run of small messages: whatever a parser counts or keeps while it reads one message (nesting levels, list
		// entries, names, ellipses, sizes, positions) accumulates over 20-150 messages if it is not reset
		k := rapid.IntRange(20, 150).Draw(t, "runLength")
		bodies := []string{"", "\n<L>", "\n<L[0]>", "\n<L <L> <L>>", "\n<L <L <L>>>", "\n<U1 1>", "\n<A>", "\n<B>", "\n<L <A \"x\"> <U2 v>>", "\n<A[0..9] ack>", "\n<L <U1 a> ...>",
			"\n<L <L <I2 b> ...> ...>", "\n<L[2] <BOOLEAN T> <F4 1.5>>", "\n<L x y>", "\n<L <L <L <L <L <L <L <L>>>>>>>>", "\n<L <L> <L> <L> <L> <L> <L> <L> <L>>"}
		favourite := rapid.IntRange(0, len(bodies)-1).Draw(t, "favouriteBody")
		for i := 0; i < k; i++ {
			b := bodies[favourite]
			if rapid.IntRange(0, 2).Draw(t, "otherBody") == 2 {
				b = bodies[rapid.IntRange(0, len(bodies)-1).Draw(t, "body")]
			}
			hdr := fmt.Sprintf("S%dF%d", 1+i%100, 1+2*(i%100))
			hdr += rapid.SampledFrom([]string{" W", "", " [W]", " H->E", " W H<-E nm"}).Draw(t, "hdrRest")
			c.Texts = append(c.Texts, hdr+b+"\n.\n")
			c.Seps = append(c.Seps, rapid.SampledFrom([]string{"", "", " ", "\n", " // c\n"}).Draw(t, "joiner"))
		}
		stats.labelOnly("long-run-of-small-messages", 1)
		return c
	}
	if rapid.IntRange(0, 29).Draw(t, "gluedDot") == 29 {
		// a header-only message whose terminator is glued to its name ("Name."): the unchanged parser takes the
		// dot as part of the name and rejects the text (excluded); a parser that accepts it must keep the messages apart
		c.Texts = []string{"S1F1 W H->E AreYouThere.", rapid.SampledFrom([]string{"S2F2 H<-E\n<U1 1>\n.", "S2F3 W\n.", "S5F1 W H->E Alarm <L> ."}).Draw(t, "second")}
		c.Seps = []string{rapid.SampledFrom([]string{"", "", " ", "\n"}).Draw(t, "joiner")}
		return c
	}
	if rapid.IntRange(0, 7).Draw(t, "conversation") == 7 {
		// related headers: a primary message and the messages that usually follow it (the reply: same stream, next
		// function; the same message again; the next primary), with parts of the header left out in some of them
		stream := rapid.IntRange(0, 127).Draw(t, "stream")
		fn := rapid.IntRange(0, 126).Draw(t, "function")*2 + 1
		for i := 0; i < n; i++ {
			f := fn + rapid.SampledFrom([]int{0, 1, 1, 1, 2, -1}).Draw(t, "step")
			if i == 0 {
				f = fn
			}
			if f < 0 || f > 255 {
				f = fn
			}
			hdr := fmt.Sprintf("S%dF%d", stream, f)
			if f%2 == 1 {
				hdr += rapid.SampledFrom([]string{" W", " W", " [W]", ""}).Draw(t, "wait")
			}
			hdr += rapid.SampledFrom([]string{" H->E", " H<-E", " H<->E", "", "", ""}).Draw(t, "dir")
			hdr += rapid.SampledFrom([]string{"", "", " Reply", " name"}).Draw(t, "name")
			body := rapid.SampledFrom([]string{"", "\n<L>", "\n<U1 1>", "\n<L <A \"x\"> <U2 v>>", "\n<A ack>"}).Draw(t, "body")
			c.Texts = append(c.Texts, hdr+body+"\n.\n")
			c.Seps = append(c.Seps, rapid.SampledFrom([]string{"", " ", "\n", " // c\n"}).Draw(t, "joiner"))
			fn = f
		}
		stats.labelOnly("related-headers", 1)
		return c
	}
	for i := 0; i < n; i++ {
		sp := &rapidSpeller{t: t, sizes: rapid.Bool().Draw(t, "withSizes")}
		msgs, toks := genSMLMessages(t, rapid.SampledFrom([]int{1, 1, 2}).Draw(t, "msgsInText"), sp, treeOpts{Vars: true, Ellipsis: true, Suffix: true, NoDeep: true, MaxDepth: 4, MaxElems: 4, VarPct: 35})
		if prevTree != nil && rapid.Bool().Draw(t, "reuseTree") {
			// the same template again: same variable names, same ellipses
			h := smlHeader(msgs[0].Hdr)
			toks[0] = model.MessageTokens(h, prevTree, sp)
		} else if msgs[0].Tree != nil {
			prevTree = msgs[0].Tree
		}
		var all []model.Tok
		for j := range toks {
			all = append(all, toks[j]...)
		}
		s, _ := render(all, genLayout(t, all, true))
		c.Texts = append(c.Texts, s)
		c.Seps = append(c.Seps, rapid.SampledFrom([]string{"", " ", "\n", "\r\n", "\t", "\n\n", " // between messages\n", "//x\n", " // remark\rmore\n", "// disabled:\rS9F9 H<-E .\n", "\t//\r<L\r\n", "//\u3000.\n",
			"\u00a0", "\u0085", "\u2028", "\u3000", "\u1680\n", "\v", "\f"}).Draw(t, "joiner"))
	}
	return c
}

func TestC19(t *testing.T) {
	rapidProp(t, "C19", "c19", genC19, checkC19)
}
