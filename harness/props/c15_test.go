package props

import (
	"fmt"
	"math/big"
	"strings"
	"testing"

	"verifharness/model"

	"github.com/wolimst/lib-secs2-hsms-go/pkg/ast"
	"github.com/wolimst/lib-secs2-hsms-go/pkg/parser/sml"
	"pgregory.net/rapid"
)

// C15 - declared item sizes [n], [a..b], [a..], [..b] are enforced.

type c15Case struct {
	Kind   string `json:"kind"`
	Form   int    `json:"form"` // 0 [n]  1 [a..b]  2 [a..]  3 [..b]
	Lo     string `json:"lo"`   // decimal digits (may be very long)
	Hi     string `json:"hi"`
	Count  int    `json:"count"`
	Blanks int    `json:"blanks"` // pattern of blanks inside the brackets
	AsVar  bool   `json:"as_var"` // ASCII variable instead of a literal
	InList bool   `json:"in_list"`
	BadAt  int    `json:"bad_at,omitempty"` // 1-based: that element of the literal is one its type cannot hold (0 = none)
	// SameLine, when set, is a message name written before the item ON THE SAME LINE (positions are counted in characters)
	SameLine string `json:"same_line,omitempty"`
	// After, when set, puts another complete message with a size violation of its own BEFORE this one in the same
	// text: every violated declaration is reported, not only the first
	After bool `json:"after,omitempty"`
	// Pieces > 0: an ASCII literal is written as one quoted run per character plus that many EMPTY runs ("") spread over
	// the literal - more tokens than characters; the declaration counts characters
	Pieces int `json:"pieces,omitempty"`
	// Twin (with InList, not for lists): the item is written twice on the same line, so a violated declaration gives two
	// reports with the same text on one line, at different columns; the position of the SECOND is checked
	Twin bool `json:"twin,omitempty"`
	// Exotic > 0: the blanks inside the brackets are a Unicode blank outside ASCII (exoticBlanks[Exotic-1]). Nothing says that
	// such a declaration is well formed: it may be refused; if it is accepted the bounds hold as written
	Exotic int `json:"exotic,omitempty"`
}

var exoticBlanks = []string{"\u00a0", "\u0085", "\u2009", "\u2028", "\u3000", "\u1680", "\u202f", "\v", "\f"}

// badElement is a well-formed number that the item type cannot represent: it is written, so it is counted.
func badElement(kind string) string {
	switch kind {
	case model.B, model.U1:
		return "256"
	case model.A:
		return "300"
	case model.I1:
		return "-129"
	case model.I2:
		return "32768"
	case model.I4:
		return "-2147483649"
	case model.I8:
		return "9223372036854775808"
	case model.U2:
		return "65536"
	case model.U4:
		return "4294967296"
	case model.U8:
		return "18446744073709551616"
	case model.F4, model.F8:
		return "1e999"
	}
	return ""
}

func init() { registerReplay("c15", checkC15) }

func (c c15Case) decl() string {
	sp := func(bit int) string {
		if c.Exotic > 0 {
			if c.Blanks>>uint(bit)&1 == 1 || (c.Blanks&0xF == 0 && bit == 0) {
				return exoticBlanks[(c.Exotic-1)%len(exoticBlanks)]
			}
			return ""
		}
		if c.Blanks>>uint(bit)&1 == 1 {
			if c.Blanks>>6&1 == 1 {
				// a line break inside the brackets, with a comment (holding digits, dots and brackets) before it
				return []string{" // 7 [2..9] 015\n", "\n", " //]\n  "}[(c.Blanks>>4)%3]
			}
			return []string{" ", "\t", "  "}[(c.Blanks>>4)%3]
		}
		return ""
	}
	switch c.Form {
	case 0:
		return "[" + sp(0) + c.Lo + sp(1) + "]"
	case 1:
		return "[" + sp(0) + c.Lo + sp(1) + ".." + sp(2) + c.Hi + sp(3) + "]"
	case 2:
		return "[" + sp(0) + c.Lo + sp(1) + ".." + sp(2) + "]"
	}
	return "[" + sp(0) + ".." + sp(2) + c.Hi + sp(3) + "]"
}

// bounds returns the declared bounds (hi nil = unbounded).
func (c c15Case) bounds() (lo, hi *big.Int) {
	l, _ := new(big.Int).SetString(c.Lo, 10)
	h, _ := new(big.Int).SetString(c.Hi, 10)
	switch c.Form {
	case 0:
		return l, l
	case 1:
		return l, h
	case 2:
		return l, nil
	}
	return big.NewInt(0), h
}

func within(n int, lo, hi *big.Int) bool {
	v := big.NewInt(int64(n))
	if v.Cmp(lo) < 0 {
		return false
	}
	return hi == nil || v.Cmp(hi) <= 0
}

func literalBody(kind string, count int) string {
	switch {
	case kind == model.L:
		if count >= 2 && count%2 == 0 {
			// the last child is a template item (an ASCII variable): it still counts as one child
			return strings.Repeat(" <U1 1>", count-2) + " <L <U1 2> <A inner>> <A last>"
		}
		return strings.Repeat(" <U1 1>", count)
	case kind == model.A:
		if count == 0 {
			return ""
		}
		return " \"" + strings.Repeat("a", count) + "\""
	case kind == model.BOOLEAN:
		return strings.Repeat(" T", count)
	case model.IsFloat(kind):
		return strings.Repeat(" 1.5", count)
	}
	return strings.Repeat(" 1", count)
}

func hasErrorAt(errs []string, line, col int) bool {
	prefix := fmt.Sprintf("Ln %d, Col %d:", line, col)
	for _, e := range errs {
		if strings.HasPrefix(e, prefix) {
			return true
		}
	}
	return false
}

func checkC15(c c15Case) (ci caseInfo, err error) {
	lo, hi := c.bounds()
	decl := c.decl()
	ci.label("form:%d", c.Form)
	if c.AsVar {
		return checkC15Variable(c, lo, hi, decl, ci)
	}
	body := literalBody(c.Kind, c.Count)
	if c.Kind == model.A && c.Pieces > 0 && !c.AsVar {
		var runs []string
		for i := 0; i < c.Count; i++ {
			runs = append(runs, "\"a\"")
		}
		for k := 0; k < c.Pieces; k++ {
			at := (k * 7) % (len(runs) + 1)
			runs = append(runs[:at], append([]string{"\"\""}, runs[at:]...)...)
		}
		body = " " + strings.Join(runs, " ")
		ci.label("ascii-with-empty-runs")
	}
	bad := c.BadAt > 0 && c.BadAt <= c.Count && badElement(c.Kind) != ""
	if bad {
		var elems []string
		if c.Kind == model.A {
			for i := 0; i < c.Count; i++ {
				elems = append(elems, "0x61")
			}
		} else {
			elems = strings.Fields(body)
		}
		elems[c.BadAt-1] = badElement(c.Kind)
		body = " " + strings.Join(elems, " ")
	}
	item := "<" + c.Kind + decl + body + ">"
	text := "S1F1 W\n" + item + "\n."
	if c.InList {
		text = "S1F1 W\n<L\n  <U1 7>\n  " + item + "\n>\n."
		if c.Twin && c.Kind != model.L {
			text = "S1F1 W\n<L\n  <U1 7>\n  " + item + " " + item + "\n>\n."
			ci.label("twin-on-one-line")
		}
	}
	if c.SameLine != "" && readsAsOneName(c.SameLine) {
		text = "S1F1 W H->E " + c.SameLine + " " + strings.TrimPrefix(text, "S1F1 W\n")
		ci.label("item-on-the-header-line")
	}
	if c.After {
		text = "S9F9 H->E\n<L\n  <U2[3] 1 2>\n>\n.\n" + text
		ci.label("after-a-message-with-its-own-violation")
	}
	off := strings.LastIndex(text, decl)
	line, col := lineCol(text, off)
	msgs, errs, _ := sml.Parse(text)
	ok := within(c.Count, lo, hi)
	if c.Exotic > 0 {
		if len(errs) > 0 && len(msgs) == 0 {
			ci.label("exotic-blank-in-declaration:refused")
			return ci, nil
		}
		ci.label("exotic-blank-in-declaration:accepted")
	}
	if c.After {
		// the earlier message is in error whatever this one does: only the position of this one's report is checked
		if len(msgs) != 0 || !hasErrorAt(errs, 3, 6) {
			return ci, fmt.Errorf("earlier message with <U2[3] 1 2>: want its error at Ln 3, Col 6 and no message, got %d message(s), errors %q", len(msgs), errs)
		}
		if !ok && !hasErrorAt(errs, line, col) {
			return ci, fmt.Errorf("count %d lies outside %s in a message that follows one with an error of its own: errors %q, none at this declaration (Ln %d, Col %d)\n%s", c.Count, decl, errs, line, col, text)
		}
		if ok && hasErrorAt(errs, line, col) {
			return ci, fmt.Errorf("count %d lies within %s but an error is reported at the declaration (Ln %d, Col %d): %q", c.Count, decl, line, col, errs)
		}
		return ci, nil
	}
	near := func(b *big.Int) bool {
		if b == nil {
			return false
		}
		d := new(big.Int).Sub(big.NewInt(int64(c.Count)), b)
		return d.CmpAbs(big.NewInt(1)) <= 0
	}
	ci.Nontrivial = near(lo) || near(hi)
	ci.label("literal:%s", map[bool]string{true: "within", false: "outside"}[ok])
	if bad {
		// refused either way; but a count outside the bounds is still reported at the declaration
		ci.label("literal:unrepresentable-element:%s", map[bool]string{true: "within", false: "outside"}[ok])
		if len(errs) == 0 || len(msgs) != 0 {
			return ci, fmt.Errorf("element %d (%s) cannot be held by %s: want an error and no message, got %d message(s), errors %q\n%s", c.BadAt, badElement(c.Kind), c.Kind, len(msgs), errs, text)
		}
		if !ok && !hasErrorAt(errs, line, col) {
			return ci, fmt.Errorf("%d elements written, outside %s: errors %q, none of them at the declaration (Ln %d, Col %d)\n%s", c.Count, decl, errs, line, col, text)
		}
		return ci, nil
	}
	if ok {
		if len(errs) != 0 || len(msgs) != 1 {
			return ci, fmt.Errorf("count %d lies within %s but the text is rejected: %q\n%s", c.Count, decl, errs, text)
		}
		direct := "<" + c.Kind
		_ = direct
		pn, rerr := model.ReadItem(itemPart(strings.TrimSuffix(msgs[0].String(), "\n.")))
		if rerr != nil {
			return ci, fmt.Errorf("harness: %v", rerr)
		}
		target := pn
		if c.InList {
			target = pn.Children[1].Node
		}
		if target.Kind != c.Kind || target.PrintedCount() != c.Count {
			return ci, fmt.Errorf("accepted item has kind %s and %d elements, written %s with %d\n%s", target.Kind, target.PrintedCount(), c.Kind, c.Count, text)
		}
		return ci, nil
	}
	if len(errs) == 0 {
		return ci, fmt.Errorf("count %d lies outside %s but no error is reported (messages: %d)\n%s", c.Count, decl, len(msgs), text)
	}
	if len(msgs) != 0 {
		return ci, fmt.Errorf("error reported but %d message(s) returned", len(msgs))
	}
	if !hasErrorAt(errs, line, col) {
		return ci, fmt.Errorf("count %d lies outside %s: errors %q, none of them at the declaration (Ln %d, Col %d)\n%s", c.Count, decl, errs, line, col, text)
	}
	return ci, nil
}

func checkC15Variable(c c15Case, lo, hi *big.Int, decl string, ci caseInfo) (caseInfo, error) {
	item := "<A" + decl + " v>"
	text := "S1F1 W\n" + item + "\n."
	if c.InList {
		text = "S1F1 W\n<L\n  " + item + "\n  ...\n>\n."
	}
	ci.Nontrivial = true
	msgs, errs, _ := sml.Parse(text)
	if c.Exotic > 0 {
		if len(errs) > 0 && len(msgs) == 0 {
			ci.label("exotic-blank-in-declaration:refused")
			return ci, nil
		}
		ci.label("exotic-blank-in-declaration:accepted")
	}
	if hi != nil && lo.Cmp(hi) > 0 && !lo.IsInt64() {
		// the lower bound is beyond any representable length (it overflows 63 bits): no string can satisfy either reading
		ci.label("either:lower-bound-overflows")
		if len(errs) == 0 && len(msgs) == 1 {
			if p, _ := try(func() { msgs[0].FillVariables(map[string]interface{}{"v": "x", "v[0]": "x"}) }); !p && !c.InList {
				return ci, fmt.Errorf("bounds %s accept a one-character string", decl)
			}
		}
		return ci, nil
	}
	if hi != nil && lo.Cmp(hi) > 0 {
		ci.label("variable:lower>upper")
		if len(errs) == 0 || len(msgs) != 0 {
			return ci, fmt.Errorf("lower bound above upper bound in %s: want an error and no message, got %d message(s), errors %q", decl, len(msgs), errs)
		}
		return ci, nil
	}
	if len(errs) != 0 || len(msgs) != 1 {
		return ci, fmt.Errorf("ASCII variable with %s is rejected: %q\n%s", decl, errs, text)
	}
	m := msgs[0]
	// printed back: parses to a template that prints identically
	if err := printParseFixedPoint(m); err != nil {
		return ci, err
	}
	small := lo.IsInt64() && lo.Int64() <= 70000 && (hi == nil || (hi.IsInt64() && hi.Int64() <= 70000))
	if lo.IsInt64() && (hi == nil || hi.IsInt64()) {
		if small {
			ci.label("variable:small-bounds")
		} else {
			ci.label("variable:large-bounds-printed-back")
		}
		want := "<A" + model.Canonical{}.AVarSize(int(lo.Int64()), func() int {
			if hi == nil {
				return -1
			}
			return int(hi.Int64())
		}()) + " v"
		if !strings.Contains(m.String(), want) {
			return ci, fmt.Errorf("bounds of %s are not printed back: %q does not contain %q", decl, m.String(), want)
		}
	} else {
		ci.label("variable:huge-bounds")
	}
	// enforced when filled
	name := "v"
	base := m
	if c.InList {
		// carry the variable through an expansion: two copies v[0], v[1]
		base = m.FillVariables(map[string]interface{}{"...[0]": 1})
		name = "v[1]"
		if !sameStrings(base.Variables(), []string{"v[0]", "v[1]"}) {
			return ci, fmt.Errorf("expansion of %q gives variables %q", text, base.Variables())
		}
	}
	probes := map[int]bool{0: true, 5: true, c.Count: true}
	for _, b := range []*big.Int{lo, hi} {
		if b != nil && b.IsInt64() && b.Int64() <= 70000 {
			n := int(b.Int64())
			probes[n], probes[n+1] = true, true
			if n > 0 {
				probes[n-1] = true
			}
		}
	}
	if c.InList {
		// the same probes in ONE call: the ellipsis is expanded and the renamed copy filled by the same map
		for n := range probes {
			panicked, _ := try(func() { m.FillVariables(map[string]interface{}{"...[0]": 1, "v[1]": strings.Repeat("s", n)}) })
			if want := within(n, lo, hi); want == panicked {
				return ci, fmt.Errorf("ASCII variable %s filled in the same call that expands its list: a string of length %d should be %s but was %s", decl, n,
					map[bool]string{true: "accepted", false: "refused"}[want], map[bool]string{true: "refused", false: "accepted"}[panicked])
			}
		}
	}
	for n := range probes {
		var res *ast.DataMessage
		panicked, _ := try(func() { res = base.FillVariables(map[string]interface{}{name: strings.Repeat("s", n)}) })
		if want := within(n, lo, hi); want == panicked {
			return ci, fmt.Errorf("ASCII variable %s%s: a string of length %d should be %s but was %s", decl, map[bool]string{true: " (after expansion)", false: ""}[c.InList], n,
				map[bool]string{true: "accepted", false: "refused"}[want], map[bool]string{true: "refused", false: "accepted"}[panicked])
		} else if !panicked && !strings.Contains(res.String(), "\""+strings.Repeat("s", n)+"\"") && n > 0 {
			return ci, fmt.Errorf("filled value of length %d is not in the result", n)
		}
	}
	return ci, nil
}

// accessor on directly constructed nodes
type c15Node struct {
	Min int `json:"min"`
	Max int `json:"max"`
}

func init() { registerReplay("c15node", checkC15Node) }

func checkC15Node(c c15Node) (ci caseInfo, err error) {
	valid := c.Min >= 0 && c.Max >= -1 && (c.Max == -1 || c.Min <= c.Max)
	ci.Nontrivial = true
	ci.label("node:valid=%v", valid)
	var n ast.ItemNode
	panicked, _ := try(func() { n = ast.NewASCIINodeVariable("v", c.Min, c.Max) })
	if valid == panicked {
		return ci, fmt.Errorf("NewASCIINodeVariable(v, %d, %d): valid=%v but panicked=%v", c.Min, c.Max, valid, panicked)
	}
	if !valid {
		return ci, nil
	}
	a := n.(*ast.ASCIINode)
	if lo, hi := a.FillInStringLength(); lo != c.Min || hi != c.Max {
		return ci, fmt.Errorf("FillInStringLength() = (%d, %d), constructed with (%d, %d)", lo, hi, c.Min, c.Max)
	}
	if n.Size() != -1 {
		return ci, fmt.Errorf("Size() of an ASCII variable = %d", n.Size())
	}
	for _, l := range []int{c.Min - 1, c.Min, c.Max, c.Max + 1, c.Min + 1} {
		if l < 0 || l > 100000 {
			continue
		}
		want := l >= c.Min && (c.Max == -1 || l <= c.Max)
		var filled ast.ItemNode
		p, _ := try(func() { filled = n.FillVariables(map[string]interface{}{"v": strings.Repeat("q", l)}) })
		if want == p {
			return ci, fmt.Errorf("bounds (%d, %d): length %d accepted=%v, want %v", c.Min, c.Max, l, !p, want)
		}
		if !p {
			fa := filled.(*ast.ASCIINode)
			if lo, hi := fa.FillInStringLength(); lo != -2 || hi != -2 || filled.Size() != l {
				return ci, fmt.Errorf("filled node reports bounds (%d,%d), size %d", lo, hi, filled.Size())
			}
		}
	}
	return ci, nil
}

func TestC15Enum(t *testing.T) {
	shard, nshards := shardInfo()
	seq := 0
	run := func(c c15Case) {
		seq++
		if seq%nshards == shard {
			runCase[c15Case](t, "C15", "c15", checkC15, c)
		}
	}
	for _, kind := range model.AllKinds {
		for form := 0; form < 4; form++ {
			for lo := 0; lo <= 5; lo++ {
				for hi := 0; hi <= 5; hi++ {
					if (form == 0 || form == 2) && hi != 0 {
						continue
					}
					if form == 3 && lo != 0 {
						continue
					}
					for count := 0; count <= 5; count++ {
						run(c15Case{Kind: kind, Form: form, Lo: fmt.Sprint(lo), Hi: fmt.Sprint(hi), Count: count, InList: (lo+hi+count)%2 == 1})
						if kind != model.L {
							run(c15Case{Kind: kind, Form: form, Lo: fmt.Sprint(lo), Hi: fmt.Sprint(hi), Count: count, InList: true, Twin: true})
						}
						if kind == model.A {
							for pieces := 1; pieces <= 3; pieces++ {
								run(c15Case{Kind: kind, Form: form, Lo: fmt.Sprint(lo), Hi: fmt.Sprint(hi), Count: count, InList: (lo+hi+count)%2 == 1, Pieces: pieces})
							}
						}
						if count > 0 && badElement(kind) != "" {
							// the same with one element the type cannot hold (first, last in turn)
							run(c15Case{Kind: kind, Form: form, Lo: fmt.Sprint(lo), Hi: fmt.Sprint(hi), Count: count, InList: (lo+hi+count)%2 == 0, BadAt: 1 + (lo+hi)%count})
						}
					}
				}
			}
		}
	}
	// ASCII variables, all forms and small bounds
	for form := 0; form < 4; form++ {
		for lo := 0; lo <= 5; lo++ {
			for hi := 0; hi <= 5; hi++ {
				if (form == 0 || form == 2) && hi != 0 {
					continue
				}
				if form == 3 && lo != 0 {
					continue
				}
				for _, inList := range []bool{false, true} {
					run(c15Case{Kind: model.A, Form: form, Lo: fmt.Sprint(lo), Hi: fmt.Sprint(hi), Count: lo, AsVar: true, InList: inList})
				}
			}
		}
	}
	for min := -2; min <= 6; min++ {
		for max := -3; max <= 6; max++ {
			seq++
			if seq%nshards == shard {
				runCase[c15Node](t, "C15", "c15node", checkC15Node, c15Node{Min: min, Max: max})
			}
		}
	}
	stats.setExtra("enum", "exhaustive: 4 declaration forms x 14 types x lower, upper, actual count in 0..5, each also with one unrepresentable element; ASCII variables for all forms/bounds 0..5 directly and through a list expansion; NewASCIINodeVariable over min -2..6 x max -3..6")
}

func genDigits(t *rapid.T) string {
	if rapid.IntRange(0, 9).Draw(t, "leadingZeros") == 9 {
		// a bound written with leading zeros. Only spellings with ONE possible reading are written: the value is below 8, or
		// a digit 8 / 9 occurs (so it cannot be meant as octal) - "010" is left out because nothing documents its base.
		z := strings.Repeat("0", rapid.IntRange(1, 3).Draw(t, "zeros"))
		if rapid.Bool().Draw(t, "lzSmall") {
			return z + fmt.Sprint(rapid.IntRange(0, 7).Draw(t, "lzBelow8"))
		}
		d := fmt.Sprint(rapid.IntRange(0, 40).Draw(t, "lzValue"))
		if !strings.ContainsAny(d, "89") {
			d = rapid.SampledFrom([]string{"8", "9", "08", "18", "19", "28", "9", "8"}).Draw(t, "lz89")
		}
		return z + d
	}
	switch rapid.IntRange(0, 5).Draw(t, "numClass") {
	case 0, 1, 2:
		return fmt.Sprint(rapid.IntRange(0, 40).Draw(t, "small"))
	case 3:
		return rapid.SampledFrom([]string{"255", "256", "65535", "65536", "16777215", "16777216", "2147483647", "2147483648", "4294967296",
			"9223372036854775807", "9223372036854775808", "18446744073709551615", "18446744073709551616", "99999999999999999999", "1000000000000000000000000"}).Draw(t, "boundary")
	case 4:
		n := rapid.IntRange(1, 25).Draw(t, "ndigits")
		s := string("123456789"[rapid.IntRange(0, 8).Draw(t, "d0")])
		for i := 1; i < n; i++ {
			s += string("0123456789"[rapid.IntRange(0, 9).Draw(t, "d")])
		}
		return s
	}
	return fmt.Sprint(rapid.IntRange(0, 300).Draw(t, "medium"))
}

func TestC15(t *testing.T) {
	rapidProp(t, "C15", "c15", func(t *rapid.T) c15Case {
		c := c15Case{
			Kind:   rapid.SampledFrom(model.AllKinds).Draw(t, "kind"),
			Form:   rapid.IntRange(0, 3).Draw(t, "form"),
			Lo:     genDigits(t),
			Hi:     genDigits(t),
			Blanks: rapid.IntRange(0, 127).Draw(t, "blanks"),
			InList: rapid.Bool().Draw(t, "inList"),
			AsVar:  rapid.IntRange(0, 3).Draw(t, "asVar") == 3,
		}
		// the actual count: near a declared bound when that is small enough to write out
		c.Count = rapid.IntRange(0, 12).Draw(t, "count")
		for _, b := range []string{c.Lo, c.Hi} {
			if bv, _ := new(big.Int).SetString(b, 10); bv != nil && bv.IsInt64() && bv.Int64() <= 999 && rapid.Bool().Draw(t, "nearBound") {
				n := int(bv.Int64()) // read in base 10 whatever the spelling (fmt.Sscan would take a leading zero for octal)
				c.Count = n + rapid.IntRange(-1, 1).Draw(t, "delta")
				if c.Count < 0 {
					c.Count = 0
				}
			}
		}
		if c.AsVar {
			c.Kind = model.A
		}
		if rapid.IntRange(0, 11).Draw(t, "exoticBlank") == 11 {
			c.Exotic = rapid.IntRange(1, len(exoticBlanks)).Draw(t, "exoticWhich")
			c.Blanks &= 0xF
		}
		if !c.AsVar && c.Exotic == 0 && rapid.IntRange(0, 5).Draw(t, "after") == 5 {
			c.After = true
		}
		if rapid.IntRange(0, 4).Draw(t, "sameLine") == 4 {
			c.SameLine = rapid.SampledFrom([]string{"name", "Größe", "a✉b", "名前", "x", "😀", "ıſ", "n\u00e9"}).Draw(t, "sameLineName")
		}
		if c.InList && !c.AsVar && rapid.IntRange(0, 3).Draw(t, "twin") == 3 {
			c.Twin = true
		}
		if c.Kind == model.A && !c.AsVar && rapid.IntRange(0, 2).Draw(t, "emptyRuns") == 2 {
			c.Pieces = rapid.IntRange(1, 6).Draw(t, "pieces")
		}
		if c.Count > 0 && c.Pieces == 0 && rapid.IntRange(0, 5).Draw(t, "badElem") == 5 {
			c.BadAt = rapid.IntRange(1, c.Count).Draw(t, "badAt")
		}
		return c
	}, checkC15)
}
