package props

import (
	"fmt"
	"os"
	"strings"
	"testing"
	"time"

	"verifharness/model"

	"pgregory.net/rapid"
)

// C07 - the HSMS decoder is total and its memory use is linear in the input.
// Every input is decoded in an isolated worker process (RLIMIT_AS 4 GiB).

const (
	c07AllocBase    = 256 << 10 // bytes
	c07AllocPerByte = 2048      // bytes of TotalAlloc allowed per input byte (the unchanged decoder needs 1..550, measured over all generated shapes)
	c07DepthCap     = 2000      // generators never nest deeper: decoding time is quadratic in depth, and extreme depth is an open known finding
)

type c07Case struct {
	Gen      string         `json:"gen"`                 // how the input is produced
	Bytes    model.HexBytes `json:"bytes,omitempty"`     // explicit input (small cases)
	Item     *model.Node    `json:"item,omitempty"`      // described item (long inputs), framed as a message
	Depth    int            `json:"depth,omitempty"`     // chain of 1-element lists around Core
	Core     model.HexBytes `json:"core,omitempty"`      // innermost item bytes of a chain
	Sib      model.HexBytes `json:"sib,omitempty"`       // one encoded leaf item that every level of the chain holds beside its nested list
	SibPos   int            `json:"sib_pos,omitempty"`   // 0 before the nested list, 1 after it, 2 both
	SibItems int            `json:"sib_items,omitempty"` // number of items that Sib encodes (0 = one)
	RepKind  string         `json:"rep_kind,omitempty"`  // an item of this kind whose payload is RepUnit repeated RepN times (refused values en masse)
	RepUnit  model.HexBytes `json:"rep_unit,omitempty"`
	RepN     int            `json:"rep_n,omitempty"`
	// RefusedHeader: the header (not the text) is one the message constructor refuses - W-bit on an even function -
	// so that the refusal comes after the whole text has been decoded; it must cost no more than accepting would
	RefusedHeader bool `json:"refused_header,omitempty"`
	Truncate      int  `json:"truncate,omitempty"`
	Patch         bool `json:"patch,omitempty"` // rewrite the outer length to match
	// History: inputs decoded by the same worker process right before this one (the decoder must not carry
	// anything from one call to the next)
	History []model.HexBytes `json:"history,omitempty"`
}

func init() { registerReplay("c07", checkC07) }

var c07Header = []byte{0, 0, 0, 0, 0, 1, 0x81, 0x01, 0, 0, 0, 0, 0, 7}

func (c c07Case) input() ([]byte, error) {
	var in []byte
	switch {
	case c.Item != nil:
		m := &model.Msg{Session: 1, Stream: 1, Function: 1, Wait: true, System: [4]byte{0, 0, 0, 7}, Item: c.Item}
		b, _, err := model.RefEncodeMsg(m, nil)
		if err != nil {
			return nil, err
		}
		in = b
	case c.RepN > 0:
		n := c.RepN * len(c.RepUnit)
		in = append(in, c07Header...)
		in = append(in, wrapInLists(nil, c.Depth)...)
		in = append(in, byte(model.FormatCode(c.RepKind)<<2|3), byte(n>>16), byte(n>>8), byte(n))
		for i := 0; i < c.RepN; i++ {
			in = append(in, c.RepUnit...)
		}
		in = patchLen(in)
	case c.Depth > 0 || c.Gen == "chain":
		in = append(in, c07Header...)
		var tail []byte
		k := byte(c.SibItems)
		if k == 0 {
			k = 1
		}
		for i := 0; i < c.Depth; i++ {
			switch {
			case len(c.Sib) == 0:
				in = append(in, 0x01, 0x01)
			case c.SibPos == 0:
				in = append(append(in, 0x01, 1+k), c.Sib...)
			case c.SibPos == 1:
				in = append(in, 0x01, 1+k)
				tail = append(tail, c.Sib...)
			default:
				in = append(append(in, 0x01, 1+2*k), c.Sib...)
				tail = append(tail, c.Sib...)
			}
		}
		in = append(in, c.Core...)
		in = append(in, tail...)
		in = patchLen(in)
	default:
		in = append([]byte(nil), c.Bytes...)
	}
	if c.RefusedHeader && len(in) >= 14 && in[8] == 0 && in[9] == 0 {
		in[6] |= 0x80
		in[7] &^= 1
	}
	if c.Truncate > 0 && c.Truncate < len(in) {
		in = in[:len(in)-c.Truncate]
	}
	if c.Patch {
		in = patchLen(in)
	}
	return in, nil
}

// declaredExceeds reports whether some declared item length exceeds the bytes
// that remain (scan of the item structure as far as it is well-formed).
func declaredExceeds(in []byte) bool {
	if len(in) < 15 {
		return false
	}
	pos := 14
	for pos < len(in) {
		fb := in[pos]
		nlb := int(fb & 3)
		pos++
		if nlb == 0 || pos+nlb > len(in) {
			return false
		}
		l := 0
		for i := 0; i < nlb; i++ {
			l = l<<8 | int(in[pos+i])
		}
		pos += nlb
		if l > len(in)-pos {
			return true
		}
		if fb>>2 != 0 {
			pos += l
		}
	}
	return false
}

func checkC07(c c07Case) (ci caseInfo, err error) {
	in, ierr := c.input()
	if ierr != nil {
		return ci, fmt.Errorf("harness: %v", ierr)
	}
	ci.label("gen:" + c.Gen)
	outerOK := len(in) >= 14 && int(uint32(in[0])<<24|uint32(in[1])<<16|uint32(in[2])<<8|uint32(in[3])) == len(in)-4
	ci.Nontrivial = (outerOK && declaredExceeds(in)) || len(in) > 64<<10
	if outerOK && declaredExceeds(in) {
		ci.label("declared-length-exceeds-input")
	}
	if len(in) > 64<<10 {
		ci.label("input>64KiB")
	}
	if len(in) > 200 {
		ci.Key = fmt.Sprintf("%s/%d/%x", c.Gen, len(in), hashBytes(in))
	}
	budget := 30*time.Second + time.Duration(len(in)/(1<<20))*10*time.Second
	for _, h := range c.History {
		if o, werr := pool.run("hsms", h, budget); werr != nil {
			return ci, fmt.Errorf("harness: cannot start worker: %v", werr)
		} else if o.Died || o.TimedOut {
			return ci, fmt.Errorf("hsms.Parse died or hung (%s) on the history input %s", o.Fatal, hexPrefix(h, 40))
		}
	}
	if len(c.History) > 0 {
		ci.label("with-history")
	}
	before := pool.history("hsms")
	out, werr := pool.run("hsms", in, budget)
	if werr != nil {
		return ci, fmt.Errorf("harness: cannot start worker: %v", werr)
	}
	if out.TimedOut {
		// second stage: the same input after the same recent history, in a fresh worker with a larger budget
		out2, werr := runFreshAfter("hsms", before, in, 3*budget)
		if werr != nil {
			return ci, fmt.Errorf("harness: %v", werr)
		}
		if out2.TimedOut || out2.Died {
			alone, _ := runFresh("hsms", in, 3*budget)
			hist := c07Case{Gen: c.Gen + "+history", Bytes: in}
			for _, h := range before {
				hist.History = append(hist.History, h)
			}
			what := "does not return"
			if out2.Died {
				what = "aborts the process (" + out2.Fatal + ")"
			}
			if alone.TimedOut || alone.Died {
				return ci, fmt.Errorf("hsms.Parse %s within %v on a %d-byte input (%s): %s", what, 3*budget, len(in), c.Gen, hexPrefix(in, 60))
			}
			err := fmt.Errorf("hsms.Parse %s within %v on the %d-byte input %s when it is decoded after the %d inputs the same process decoded before (alone it returns): state is carried between calls", what, 3*budget, len(in), hexPrefix(in, 40), len(before))
			p := writeReplay("C07", "c07", hist, err)
			return ci, fmt.Errorf("%v\n(the case with its history is stored in %s)", err, p)
		}
		stats.exclude("inconclusive-first-watchdog-expired")
		out = out2
	}
	if out.Died {
		return ci, fmt.Errorf("hsms.Parse aborted the process (%s) on a %d-byte input (%s: %s)\n%s", out.Fatal, len(in), c.Gen, hexPrefix(in, 40), out.Stderr)
	}
	r := out.Reply
	if r.Panic != "" {
		return ci, fmt.Errorf("a panic escaped hsms.Parse: %s (input %s)", r.Panic, hexPrefix(in, 60))
	}
	limit := uint64(c07AllocBase + c07AllocPerByte*len(in))
	if r.Alloc > limit {
		return ci, fmt.Errorf("decoding a %d-byte input allocated %d bytes in total (%.0f per input byte; limit %d + %d per byte): %s (%s)",
			len(in), r.Alloc, float64(r.Alloc)/float64(len(in)+1), c07AllocBase, c07AllocPerByte, hexPrefix(in, 60), c.Gen)
	}
	if r.OK {
		ci.label("decoded:ok")
	} else {
		ci.label("decoded:rejected")
	}
	ratio := r.Alloc / uint64(len(in)+1)
	switch {
	case ratio >= 1024:
		ci.label("alloc-ratio>=1024")
	case ratio >= 256:
		ci.label("alloc-ratio>=256")
	}
	return ci, nil
}

func wrapInLists(core []byte, depth int) []byte {
	out := []byte{}
	for i := 0; i < depth; i++ {
		out = append(out, 0x01, 0x01)
	}
	return append(out, core...)
}

func genC07(t *rapid.T) c07Case {
	c := genC07Shape(t)
	if (c.Depth > 0 || c.Item != nil || c.RepN > 0) && rapid.IntRange(0, 4).Draw(t, "refusedHeader") == 4 {
		c.RefusedHeader = true
		c.Gen += "+refused-header"
	}
	return c
}

func genC07Shape(t *rapid.T) c07Case {
	switch rapid.IntRange(0, 13).Draw(t, "class") {
	case 13:
		// one item full of values that its constructor refuses (NaN, infinities, non-ASCII bytes): refused, at linear cost
		type unit struct {
			kind string
			b    []byte
		}
		u := rapid.SampledFrom([]unit{
			{model.F4, []byte{0x7F, 0xC0, 0, 0}}, {model.F4, []byte{0xFF, 0xFF, 0xFF, 0xFF}}, {model.F4, []byte{0x7F, 0x80, 0, 0}}, {model.F4, []byte{0xFF, 0x80, 0, 0}},
			{model.F8, []byte{0x7F, 0xF8, 0, 0, 0, 0, 0, 0}}, {model.F8, []byte{0xFF, 0xF0, 0, 0, 0, 0, 0, 0}}, {model.F8, []byte{0xFF, 0xFF, 0xFF, 0xFF, 0xFF, 0xFF, 0xFF, 0xFF}},
			{model.F4, []byte{0x3F, 0x80, 0, 0, 0x7F, 0xC0, 0, 0}}, {model.A, []byte{0xE9}}, {model.A, []byte{0x61, 0x80}}, {model.A, []byte{0xFF}},
		}).Draw(t, "refusedUnit")
		return c07Case{Gen: "item-of-refused-values", RepKind: u.kind, RepUnit: u.b, RepN: rapid.IntRange(100, 12000).Draw(t, "repN"), Depth: rapid.SampledFrom([]int{0, 0, 1, 3}).Draw(t, "depth")}
	case 0, 1, 2, 3:
		// a short input declaring a huge length, at some nesting depth
		kind := rapid.SampledFrom(model.AllKinds).Draw(t, "kind")
		nlb := rapid.IntRange(1, 3).Draw(t, "nlb")
		core := []byte{byte(model.FormatCode(kind)<<2 | nlb)}
		for i := 0; i < nlb; i++ {
			core = append(core, byte(rapid.SampledFrom([]int{0xFF, 0xFF, 0xFF, 0x7F, 0x80, 0x01, 0x00}).Draw(t, "lenByte")))
		}
		core = append(core, rapid.SliceOfN(rapid.Byte(), 0, 24).Draw(t, "payload")...)
		depth := rapid.SampledFrom([]int{0, 0, 1, 2, 3, 8, 16, 64}).Draw(t, "depth")
		return c07Case{Gen: "huge-declared-length", Depth: depth, Core: core, Patch: true}
	case 4:
		// long valid items
		kind := rapid.SampledFrom([]string{model.A, model.B, model.BOOLEAN, model.I1, model.U8, model.F4, model.L, model.I2}).Draw(t, "kind")
		maxBytes := 256 << 10
		if isThorough() {
			maxBytes = 4 << 20
		}
		n := rapid.IntRange(64<<10, maxBytes).Draw(t, "bytes") / model.Width(kind)
		if kind == model.L {
			n = rapid.IntRange(20000, maxBytes/4).Draw(t, "children")
		}
		return c07Case{Gen: "long-valid-item", Item: &model.Node{Kind: kind, Bulk: &model.Bulk{N: n, Seed: rapid.Uint64().Draw(t, "seed")}}}
	case 5:
		// long item, truncated, outer length patched
		kind := rapid.SampledFrom([]string{model.A, model.B, model.U4, model.L}).Draw(t, "kind")
		n := rapid.IntRange(1000, 60000).Draw(t, "n")
		return c07Case{Gen: "long-truncated", Item: &model.Node{Kind: kind, Bulk: &model.Bulk{N: n, Seed: rapid.Uint64().Draw(t, "seed")}},
			Truncate: rapid.IntRange(1, 900).Draw(t, "cut"), Patch: true}
	case 6, 7:
		// a valid small message, truncated / with patched length
		tree := genTree(t, treeOpts{NoDeep: true, MaxDepth: 4}, newNamer(false, false))
		m := &model.Msg{Session: 1, Stream: 1, Function: 1, Wait: true, Item: tree}
		b, _, _ := model.RefEncodeMsg(m, nil)
		cut := 0
		if len(b) > 15 {
			cut = rapid.IntRange(0, len(b)-15).Draw(t, "cut")
		}
		if rapid.IntRange(0, 2).Draw(t, "headerVariation") == 2 {
			// an otherwise well-formed frame whose header bytes are arbitrary (W-bit on even functions, PType, SType, ...)
			b = append([]byte(nil), b...)
			for _, i := range []int{6, 7} {
				b[i] = rapid.Byte().Draw(t, "hdrByte")
			}
			if rapid.IntRange(0, 3).Draw(t, "touchTypes") == 3 {
				b[8] = byte(rapid.SampledFrom([]int{0, 0, 1, 255}).Draw(t, "ptype"))
				b[9] = byte(rapid.SampledFrom([]int{0, 0, 1, 5, 8, 9, 255}).Draw(t, "stype"))
			}
			return c07Case{Gen: "valid-item-any-header", Bytes: b}
		}
		return c07Case{Gen: "truncated-item", Bytes: b, Truncate: cut, Patch: rapid.IntRange(0, 3).Draw(t, "patch") > 0}
	case 8:
		// nested chains up to the depth cap
		d := rapid.IntRange(1, c07DepthCap).Draw(t, "depth")
		if d == c07DepthCap {
			stats.exclude("nesting-depth-cap-binds")
		}
		core := rapid.SampledFrom([][]byte{{0x01, 0x00}, {0x41, 0x01, 0x61}, {0x01, 0xFF}, {0xA5, 0x01, 0x05}, {},
			// the innermost list is one child short, and the input ends exactly where that child would begin
			{0x01, 0x02, 0x01, 0x00}, {0x01, 0x02, 0x41, 0x00}, {0x01, 0x03, 0xA5, 0x01, 0x07, 0x21, 0x00}, {0x01, 0x01}, {0x01, 0x02, 0x41, 0x01, 0x61}}).Draw(t, "core")
		if rapid.Bool().Draw(t, "withSiblings") {
			// every level also holds a small leaf item beside the nested list (a well-formed, realistic shape)
			sib := rapid.SampledFrom([][]byte{{0x21, 0x00}, {0xA5, 0x01, 0x07}, {0x25, 0x01, 0x01}, {0x91, 0x04, 0x3F, 0x80, 0, 0}, {0x61, 0x08, 0, 0, 0, 0, 0, 0, 0, 9},
				{0x41, 0x01, 0x61}, {0x01, 0x00}, {0xB1, 0x00}, {0x69, 0x02, 0xFF, 0xFE}}).Draw(t, "sibling")
			if len(core) == 0 {
				core = []byte{0x01, 0x00}
			}
			if rapid.IntRange(0, 2).Draw(t, "severalSiblings") == 2 {
				// several siblings per level, possibly a small list of leaves among them; fewer levels so that the input stays small
				leaves := [][]byte{{0x21, 0x00}, {0xA5, 0x01, 0x07}, {0x25, 0x01, 0x01}, {0x41, 0x00}, {0x01, 0x00}, {0x41, 0x02, 0x61, 0x62}, {0x71, 0x04, 0, 0, 0, 1}, {0x81, 0x08, 0, 0, 0, 0, 0, 0, 0, 0}}
				n := rapid.IntRange(2, 4).Draw(t, "nSiblings")
				sib = nil
				for i := 0; i < n; i++ {
					if rapid.IntRange(0, 3).Draw(t, "sibIsList") == 3 {
						w := rapid.IntRange(1, 40).Draw(t, "sibListWidth")
						leaf := rapid.SampledFrom(leaves).Draw(t, "sibListLeaf")
						sib = append(sib, 0x01, byte(w))
						for j := 0; j < w; j++ {
							sib = append(sib, leaf...)
						}
					} else {
						sib = append(sib, rapid.SampledFrom(leaves).Draw(t, "sibLeaf")...)
					}
				}
				if d > 1+c07DepthCap*8/len(sib) {
					d = 1 + c07DepthCap*8/len(sib)
				}
				return c07Case{Gen: "chain-with-leaves", Depth: d, Core: core, Sib: sib, SibItems: n, SibPos: rapid.IntRange(0, 2).Draw(t, "sibPos")}
			}
			return c07Case{Gen: "chain-with-leaves", Depth: d, Core: core, Sib: sib, SibPos: rapid.IntRange(0, 2).Draw(t, "sibPos")}
		}
		return c07Case{Gen: "chain", Depth: d, Core: core}
	case 10:
		// nested lists that each declare as many children as the remaining bytes allow (the largest count
		// that a "declared length <= remaining bytes" test lets through)
		d := rapid.IntRange(2, c07DepthCap).Draw(t, "depth")
		pad := rapid.IntRange(0, 3000).Draw(t, "padding")
		nlb := rapid.IntRange(2, 3).Draw(t, "nlb")
		total := d*(1+nlb) + pad
		body := make([]byte, 0, total)
		for i := 0; i < d; i++ {
			remaining := total - len(body) - 1 - nlb
			count := remaining / rapid.SampledFrom([]int{1, 1, 2, 3}).Draw(t, "divisor")
			if nlb == 2 && count > 0xFFFF {
				count = 0xFFFF
			}
			body = append(body, byte(nlb))
			for k := nlb - 1; k >= 0; k-- {
				body = append(body, byte(count>>(8*uint(k))))
			}
		}
		for len(body) < total {
			body = append(body, 0x01, 0x00)
		}
		return c07Case{Gen: "nested-overdeclared-lists", Bytes: append(append([]byte(nil), c07Header...), body...), Patch: true}
	case 11:
		// a frame that only the constructors refuse (NaN / Inf float, non-ASCII byte, W-bit on an even function),
		// then a well-formed frame with numbers, strings and lists: decoded by the same process, in this order
		rejected := rapid.SampledFrom([][]byte{
			{0x91, 0x04, 0x7F, 0xC0, 0x00, 0x01}, {0x91, 0x04, 0x7F, 0x80, 0x00, 0x00}, {0x81, 0x08, 0xFF, 0xF8, 0, 0, 0, 0, 0, 1},
			{0x41, 0x02, 0x61, 0xE9}, {0x01, 0x02, 0xA5, 0x01, 0x05, 0x91, 0x04, 0xFF, 0xFF, 0xFF, 0xFF},
		}).Draw(t, "rejectedText")
		hist := patchLen(append(append([]byte(nil), c07Header...), rejected...))
		tree := genTree(t, treeOpts{NoDeep: true, MaxDepth: 3}, newNamer(false, false))
		m := &model.Msg{Session: 1, Stream: 1, Function: 1, Wait: true, Item: tree}
		b, _, _ := model.RefEncodeMsg(m, nil)
		return c07Case{Gen: "valid-after-constructor-refusal", Bytes: b, History: []model.HexBytes{hist, hist}}
	case 9:
		// wide lists of lists
		w := rapid.IntRange(1, 255).Draw(t, "width")
		core := []byte{0x01, byte(w)}
		for i := 0; i < w; i++ {
			core = append(core, 0x01, 0x00)
		}
		if rapid.Bool().Draw(t, "wideAndDeep") {
			// a wide list of small items (zero-length ones of every type among them) at the bottom of a deep chain:
			// whatever is paid per item per enclosing level shows as depth x width
			leaf := rapid.SampledFrom([][]byte{{0x41, 0x00}, {0x21, 0x00}, {0x25, 0x00}, {0x01, 0x00}, {0xA5, 0x00}, {0x71, 0x00}, {0x91, 0x00}, {0x81, 0x00}, {0x41, 0x01, 0x61}, {0xA5, 0x01, 0x07}, {0x25, 0x01, 0x01}}).Draw(t, "wideLeaf")
			w = rapid.IntRange(200, 3000).Draw(t, "wideWidth")
			core = []byte{0x02, byte(w >> 8), byte(w)}
			for i := 0; i < w; i++ {
				core = append(core, leaf...)
			}
			return c07Case{Gen: "wide-list-below-chain", Depth: rapid.IntRange(200, c07DepthCap).Draw(t, "depth"), Core: core}
		}
		return c07Case{Gen: "wide-list", Depth: rapid.IntRange(0, 20).Draw(t, "depth"), Core: core}
	default: // includes 12
		body := rapid.SliceOfN(rapid.Byte(), 0, 300).Draw(t, "bytes")
		if rapid.Bool().Draw(t, "framed") {
			return c07Case{Gen: "random-framed", Bytes: append(append([]byte(nil), c07Header...), body...), Patch: true}
		}
		return c07Case{Gen: "random", Bytes: body}
	}
}

func TestC07(t *testing.T) {
	rapidProp(t, "C07", "c07", genC07, checkC07)
}

// TestC07Known reproduces the open known findings of C07 in isolated workers
// and prints a KNOWN-FINDING-REPRODUCED line for each one that still fails.
func TestC07Known(t *testing.T) {
	root := os.Getenv("VERIF_ROOT")
	raw, _ := os.ReadFile(root + "/KNOWN_FINDINGS.txt")
	known := string(raw)
	// F1: total allocation quadratic in the nesting depth
	if strings.Contains(known, "key=nesting-quadratic-allocation") {
		c := c07Case{Gen: "chain", Depth: 3000, Core: []byte{0x01, 0x00}}
		_, err := safeCheck(checkC07, c)
		stats.record([]byte("known-f1"), &caseInfo{Nontrivial: true, Labels: []string{"known-finding-reproduction"}}, func() interface{} { return c })
		if err != nil && strings.Contains(err.Error(), "allocated") {
			fmt.Printf("KNOWN-FINDING-REPRODUCED property=C07 key=nesting-quadratic-allocation hsms.Parse: total allocation grows quadratically with list nesting depth (3000 nested 1-element lists, 6 KB input: %s)\n", firstLine(err.Error()))
		} else if err != nil {
			t.Fatalf("PROPERTY-VIOLATION property=C07 check=c07 replay=%s\n%v", writeReplay("C07", "c07", c, err), err)
		} else {
			fmt.Println("NOTE known finding nesting-quadratic-allocation no longer reproduces (fixed?)")
		}
	}
	// F2: unrecoverable stack overflow on extreme nesting
	if strings.Contains(known, "key=nesting-stack-overflow") {
		c := c07Case{Gen: "chain", Depth: 10_000_000, Core: []byte{0x01, 0x00}}
		in, _ := c.input()
		out, werr := runFresh("hsms", in, 4*time.Minute)
		stats.record([]byte("known-f2"), &caseInfo{Nontrivial: true, Labels: []string{"known-finding-reproduction"}}, func() interface{} {
			return map[string]interface{}{"gen": "chain", "depth": c.Depth, "core": "0100"}
		})
		switch {
		case werr != nil:
			t.Fatalf("harness: %v", werr)
		case out.Died && out.Fatal == "stack overflow":
			fmt.Printf("KNOWN-FINDING-REPRODUCED property=C07 key=nesting-stack-overflow hsms.Parse: %d nested 1-element lists (%d-byte input) abort the process with a fatal stack overflow that recover() cannot catch\n", c.Depth, len(in))
		case out.Died:
			err := fmt.Errorf("hsms.Parse aborted the process (%s) on the deep-nesting input\n%s", out.Fatal, out.Stderr)
			t.Fatalf("PROPERTY-VIOLATION property=C07 check=c07 replay=%s\n%v", writeReplay("C07", "c07", c, err), err)
		case out.TimedOut:
			fmt.Println("NOTE deep-nesting reproduction timed out (inconclusive)")
		default:
			fmt.Println("NOTE known finding nesting-stack-overflow no longer reproduces (fixed?)")
		}
	}
}

func firstLine(s string) string {
	if i := strings.IndexByte(s, '\n'); i >= 0 {
		return s[:i]
	}
	return s
}

// FuzzC07: coverage-guided, in-process (a process death is recorded by the Go
// fuzzer as a crasher); memory is checked through the allocation counters.
func FuzzC07(f *testing.F) {
	for _, s := range fuzzSeedsHSMS() {
		f.Add(s)
	}
	f.Fuzz(func(t *testing.T, in []byte) {
		if len(in) > 1<<16 {
			return
		}
		for _, variant := range [][]byte{in, patchLen(in)} {
			if chainDepth(variant) > c07DepthCap {
				continue
			}
			alloc, perr := measuredDecode(variant)
			var err error
			if perr != "" {
				err = fmt.Errorf("a panic escaped hsms.Parse: %s (input %s)", perr, hexPrefix(variant, 60))
			} else if alloc > uint64(c07AllocBase+c07AllocPerByte*len(variant)) {
				err = fmt.Errorf("decoding a %d-byte input allocated %d bytes in total: %s", len(variant), alloc, hexPrefix(variant, 60))
			}
			if err != nil {
				c := c07Case{Gen: "fuzz", Bytes: variant}
				t.Fatalf("PROPERTY-VIOLATION property=C07 check=c07 replay=%s\n%v", writeReplay("C07", "c07", c, err), err)
			}
		}
	})
}

// chainDepth estimates the list nesting depth of an input (number of list format bytes).
func chainDepth(in []byte) int {
	d := 0
	for i := 14; i < len(in); i++ {
		if in[i]>>2 == 0 && in[i]&3 != 0 {
			d++
		}
	}
	return d
}
