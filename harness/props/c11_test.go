package props

import (
	"bytes"
	"fmt"
	"testing"

	"verifharness/model"

	"github.com/wolimst/lib-secs2-hsms-go/pkg/ast"
	"github.com/wolimst/lib-secs2-hsms-go/pkg/parser/hsms"
	"pgregory.net/rapid"
)

// C11 - items and messages are immutable; no aliasing with caller data.
// A history of API calls over a growing pool, interleaved with in-place writes
// to every argument and every returned slice; after each step the snapshot of
// every pooled object must equal the one taken when it entered the pool.

type c11Op struct {
	Kind string         `json:"kind"` // item list fill newmsg hsmsmsg setwait setsession observe decode ctrl rsp
	Tree *model.Node    `json:"tree,omitempty"`
	A    int            `json:"a"` // pool selectors
	B    int            `json:"b"`
	C    int            `json:"c"`
	Hdr  *Hdr           `json:"hdr,omitempty"`
	Sys  model.HexBytes `json:"sys,omitempty"`
	N    int            `json:"n"`
}

type c11Case struct {
	Ops     []c11Op `json:"ops"`
	Variant int     `json:"variant"`
}

func init() { registerReplay("c11", checkC11) }

type snapshot struct {
	str, header, name, wait, dir, typ string
	bytes, system                     []byte
	vars                              []string
	size, stream, function, session   int
}

type pooled struct {
	item  ast.ItemNode
	msg   *ast.DataMessage
	ctrl  ast.HSMSMessage
	model *model.Node // model of the item (nil when unknown)
	snap  snapshot
	from  string
}

func snap(p *pooled) snapshot {
	var s snapshot
	switch {
	case p.item != nil:
		s.str = itemString(p.item)
		s.bytes = append([]byte(nil), p.item.ToBytes()...)
		s.vars = append([]string(nil), p.item.Variables()...)
		s.size = p.item.Size()
	case p.msg != nil:
		m := p.msg
		s.str, s.header, s.name, s.wait, s.dir, s.typ = m.String(), m.Header(), m.Name(), m.WaitBit(), m.Direction(), m.Type()
		s.bytes = append([]byte(nil), m.ToBytes()...)
		s.system = append([]byte(nil), m.SystemBytes()...)
		s.vars = append([]string(nil), m.Variables()...)
		s.stream, s.function, s.session = m.StreamCode(), m.FunctionCode(), m.SessionID()
	case p.ctrl != nil:
		s.typ = p.ctrl.Type()
		s.bytes = append([]byte(nil), p.ctrl.ToBytes()...)
	}
	return s
}

func (a snapshot) diff(b snapshot) string {
	switch {
	case a.str != b.str:
		return fmt.Sprintf("String() was %q, now %q", clipStr(a.str, 200), clipStr(b.str, 200))
	case !bytes.Equal(a.bytes, b.bytes):
		return fmt.Sprintf("ToBytes() was %s, now %s", hexPrefix(a.bytes, 32), hexPrefix(b.bytes, 32))
	case !bytes.Equal(a.system, b.system):
		return fmt.Sprintf("SystemBytes() was %x, now %x", a.system, b.system)
	case !sameStrings(a.vars, b.vars):
		return fmt.Sprintf("Variables() was %q, now %q", a.vars, b.vars)
	case a.header != b.header || a.name != b.name || a.wait != b.wait || a.dir != b.dir || a.typ != b.typ:
		return fmt.Sprintf("header fields were %q/%q/%s/%s/%s, now %q/%q/%s/%s/%s", a.header, a.name, a.wait, a.dir, a.typ, b.header, b.name, b.wait, b.dir, b.typ)
	case a.size != b.size || a.stream != b.stream || a.function != b.function || a.session != b.session:
		return fmt.Sprintf("size/stream/function/session were %d/%d/%d/%d, now %d/%d/%d/%d", a.size, a.stream, a.function, a.session, b.size, b.stream, b.function, b.session)
	}
	return ""
}

// buildKeepingArgs builds an item and returns every argument slice handed to a factory.
func buildKeepingArgs(n *model.Node, variant int, keep *[][]interface{}) ast.ItemNode {
	if n.Bulk != nil {
		n = n.Expanded()
	}
	switch n.Kind {
	case model.L:
		args := make([]interface{}, len(n.Children))
		for i, c := range n.Children {
			if c.Node != nil {
				args[i] = buildKeepingArgs(c.Node, variant, keep)
			} else {
				args[i] = c.Var
			}
		}
		*keep = append(*keep, args)
		return ast.NewListNode(args...)
	case model.A:
		return buildItem(n, variant)
	}
	args := make([]interface{}, len(n.Elems))
	for i, e := range n.Elems {
		args[i] = goArg(n.Kind, e, variant)
	}
	*keep = append(*keep, args)
	return factory(n.Kind, args...)
}

func scribbleArgs(keep [][]interface{}) int {
	n := 0
	for _, args := range keep {
		for i := range args {
			args[i] = "scribbled_" + fmt.Sprint(i)
			n++
		}
	}
	return n
}

func scribbleBytes(b []byte) int {
	for i := range b {
		b[i] ^= 0xA5
	}
	return len(b)
}

func checkC11(c c11Case) (ci caseInfo, err error) {
	var pool []*pooled
	writes, derivations := 0, 0
	enter := func(p *pooled) {
		p.snap = snap(p)
		pool = append(pool, p)
	}
	pick := func(sel int, want func(*pooled) bool) *pooled {
		var cands []*pooled
		for _, p := range pool {
			if want(p) {
				cands = append(cands, p)
			}
		}
		if len(cands) == 0 {
			return nil
		}
		if sel < 0 {
			sel = -sel
		}
		return cands[sel%len(cands)]
	}
	isItem := func(p *pooled) bool { return p.item != nil }
	isMsg := func(p *pooled) bool { return p.msg != nil }
	verify := func(step int, op c11Op) error {
		for i, p := range pool {
			if d := p.snap.diff(snap(p)); d != "" {
				return fmt.Errorf("after step %d (%s): pooled object #%d (created by %s) changed: %s", step+1, op.Kind, i, p.from, d)
			}
		}
		return nil
	}
	for step, op := range c.Ops {
		ci.label("op:" + op.Kind)
		switch op.Kind {
		case "item":
			if op.Tree == nil {
				continue
			}
			var keep [][]interface{}
			it := buildKeepingArgs(op.Tree, c.Variant, &keep)
			enter(&pooled{item: it, model: op.Tree, from: "factory"})
			writes += scribbleArgs(keep)
		case "list":
			a, b := pick(op.A, isItem), pick(op.B, isItem)
			if a == nil || b == nil {
				continue
			}
			// sharing the same pooled items in a new list (twice the same item only if it has no variables)
			args := []interface{}{a.item}
			mk := &model.Node{Kind: model.L}
			if a.model != nil {
				mk.Children = append(mk.Children, model.Child{Node: a.model})
			} else {
				mk = nil
			}
			if b != a || len(a.item.Variables()) == 0 {
				disjoint := true
				av := map[string]bool{}
				for _, v := range a.item.Variables() {
					av[v] = true
				}
				for _, v := range b.item.Variables() {
					if av[v] {
						disjoint = false
					}
				}
				if disjoint {
					args = append(args, b.item)
					if mk != nil && b.model != nil {
						mk.Children = append(mk.Children, model.Child{Node: b.model})
					} else {
						mk = nil
					}
				}
			}
			var lst ast.ItemNode
			if p, _ := try(func() { lst = ast.NewListNode(args...) }); p {
				continue
			}
			derivations++
			enter(&pooled{item: lst, model: mk, from: "list sharing pooled items"})
			writes += scribbleArgs([][]interface{}{args})
		case "fill":
			p := pick(op.A, func(p *pooled) bool {
				return (p.item != nil && len(p.item.Variables()) > 0 && p.model != nil) || (p.msg != nil && len(p.msg.Variables()) > 0 && p.model != nil)
			})
			if p == nil {
				continue
			}
			fills := singleFills(p.model)
			for i := range fills {
				// different values from one fill to the next, so that a template that remembers a value shows
				if e := fills[i].Elem; e != nil && fills[i].Kind != model.BOOLEAN && !model.IsFloat(fills[i].Kind) {
					v := *e
					if model.IsSigned(fills[i].Kind) {
						v.I = int64(op.N%100) - 50
					} else {
						v.U = uint64(op.N+i) % 200
					}
					fills[i].Elem = &v
				} else if e != nil && model.IsFloat(fills[i].Kind) {
					// zeros of both signs among a few exactly representable values: +0 and -0 compare equal but are
					// different values (different print, different bytes)
					fv := []uint64{0, 0x8000000000000000, 0x3FF8000000000000, 0x8000000000000000, 0, 0xBFF8000000000000, 0x3FE0000000000000, 0x4000000000000000}
					fills[i].Elem = &model.Elem{F: fv[(op.N+i)%len(fv)]}
				} else if e != nil && fills[i].Kind == model.BOOLEAN {
					fills[i].Elem = &model.Elem{T: (op.N+i)%2 == 0}
				}
			}
			if op.C%4 == 2 {
				// a rename onto the name of the NEXT variable, which is filled (or renamed) in the same call: legal, the name is
				// free again in the result; whatever the callee notes down while it sorts this out belongs to the result only
				for i := 0; i+1 < len(fills); i++ {
					sel := func(k int) bool { return (op.N>>uint(k%16))&1 == 0 }
					if fills[i].Elem != nil && fills[i+1].Elem != nil && fills[i].Kind == fills[i+1].Kind && sel(i) && sel(i+1) && (op.N>>uint(16+i%8))&1 == 0 {
						fills[i] = Assign{Name: fills[i].Name, Kind: fills[i].Kind, Rename: fills[i+1].Name}
						i++
					}
				}
			}
			fill := map[string]interface{}{}
			binds := map[string]Assign{}
			for i, a := range fills {
				if (op.N>>uint(i%16))&1 == 0 {
					fill[a.Name] = a.goValue(c.Variant)
					binds[a.Name] = a
				}
			}
			var nm *model.Node
			if es := ellipsisNames(p.model.Variables()); len(es) > 0 && op.C%3 == 1 {
				// an expanding call: every ellipsis gets the same count and nothing else is filled, so that the
				// result is known (reference expansion) and the names it generates can be filled by later steps
				fill, binds = map[string]interface{}{}, map[string]Assign{}
				counts := map[string]int{}
				for _, e := range es {
					fill[e] = (op.C / 3) % 4 // 0 (the ellipsis just goes away) .. 3
					counts[e] = (op.C / 3) % 4
				}
				nm, _ = model.RefExpand(p.model, counts)
			} else {
				nm, _ = substModel(p.model, binds)
			}
			if p.item != nil {
				var res ast.ItemNode
				if pn, _ := try(func() { res = p.item.FillVariables(fill) }); pn {
					continue
				}
				enter(&pooled{item: res, model: nm, from: "item.FillVariables"})
			} else {
				var res *ast.DataMessage
				if pn, _ := try(func() { res = p.msg.FillVariables(fill) }); pn {
					continue
				}
				enter(&pooled{msg: res, model: nm, from: "message.FillVariables"})
			}
			derivations++
			for k := range fill {
				fill[k] = "overwritten"
				writes++
			}
			fill["added_later"] = 1
		case "fillitem":
			// a pooled item becomes the value of an item variable of another pooled template: shared from now on
			tmplP := pick(op.A, func(p *pooled) bool { return p.item != nil && p.model != nil && len(itemVariablesOf(p.model)) > 0 })
			valP := pick(op.B, func(p *pooled) bool { return p.item != nil && p.model != nil })
			if tmplP == nil || valP == nil {
				continue
			}
			names := itemVariablesOf(tmplP.model)
			name := names[op.C%len(names)]
			var res ast.ItemNode
			given := map[string]interface{}{name: valP.item}
			tracked := true
			if op.N%3 == 0 && valP != tmplP {
				// the same map also expands the template's ellipses and names variables that the inserted item brings
				// along: whatever the call does with those keys, the inserted (shared) item itself stays as it is
				for _, e := range ellipsisNames(tmplP.model.Variables()) {
					given[e] = 1 + op.N%2
					tracked = false
				}
				for _, a := range singleFills(valP.model) {
					if _, taken := given[a.Name]; !taken {
						given[a.Name] = a.goValue(c.Variant)
						tracked = false
					}
				}
			}
			if pn, _ := try(func() { res = tmplP.item.FillVariables(given) }); pn {
				continue // e.g. the value brings a name the template already has
			}
			var nm *model.Node
			if tracked {
				nm, _ = substModel(tmplP.model, map[string]Assign{name: {Name: name, Kind: "item", Node: valP.model}})
			}
			derivations++
			enter(&pooled{item: res, model: nm, from: "FillVariables with a pooled item as value"})
		case "newmsg", "hsmsmsg":
			p := pick(op.A, isItem)
			if p == nil || op.Hdr == nil {
				continue
			}
			h := *op.Hdr
			// the caller's slice may be longer than the four bytes that are used (the tail of a receive buffer, say)
			sys := append(append([]byte(nil), h.System...), op.Sys...)
			var m *ast.DataMessage
			if pn, _ := try(func() {
				if op.Kind == "hsmsmsg" && len(p.item.Variables()) == 0 && h.Wait != 2 && h.Session != -1 {
					m = ast.NewHSMSDataMessage(h.Name, h.Stream, h.Function, h.Wait, h.Dir, p.item, h.Session, sys)
				} else {
					m = ast.NewDataMessage(h.Name, h.Stream, h.Function, h.Wait, h.Dir, p.item)
					if h.Session != -1 {
						enter(&pooled{msg: m, model: p.model, from: "NewDataMessage"})
						m = m.SetSessionIDAndSystemBytes(h.Session, sys)
					}
				}
			}); pn || m == nil {
				if len(op.Sys) == 0 {
					return ci, fmt.Errorf("message constructor refused a well-formed header %+v", h)
				}
				continue
			}
			derivations++
			enter(&pooled{msg: m, model: p.model, from: op.Kind})
			writes += scribbleBytes(sys)
		case "setwait":
			p := pick(op.A, isMsg)
			if p == nil {
				continue
			}
			var res *ast.DataMessage
			if pn, _ := try(func() { res = p.msg.SetWaitBit(op.N%2 == 1) }); pn {
				continue
			}
			derivations++
			if res != p.msg {
				enter(&pooled{msg: res, model: p.model, from: "SetWaitBit"})
			}
		case "setsession":
			p := pick(op.A, isMsg)
			if p == nil {
				continue
			}
			sys := append([]byte(nil), op.Sys...)
			var res *ast.DataMessage
			sess := op.N & 0xFFFF
			if op.N%5 == 0 {
				sess = -1 // "no session id": legal, the message just stays incomplete
			}
			if pn, _ := try(func() { res = p.msg.SetSessionIDAndSystemBytes(sess, sys) }); pn {
				continue
			}
			derivations++
			enter(&pooled{msg: res, model: p.model, from: "SetSessionIDAndSystemBytes"})
			writes += scribbleBytes(sys)
		case "observe":
			p := pick(op.A, func(*pooled) bool { return true })
			if p == nil {
				continue
			}
			switch {
			case p.item != nil:
				writes += scribbleBytes(p.item.ToBytes())
				vs := p.item.Variables()
				for i := range vs {
					vs[i] = "clobbered"
					writes++
				}
			case p.msg != nil:
				writes += scribbleBytes(p.msg.ToBytes())
				writes += scribbleBytes(p.msg.SystemBytes())
				vs := p.msg.Variables()
				for i := range vs {
					vs[i] = "clobbered"
					writes++
				}
			default:
				writes += scribbleBytes(p.ctrl.ToBytes())
			}
		case "decode":
			p := pick(op.A, func(p *pooled) bool {
				return (p.msg != nil && len(p.snap.bytes) > 0) || p.ctrl != nil
			})
			if p == nil {
				continue
			}
			buf := append([]byte(nil), p.snap.bytes...)
			if p.msg != nil && p.model != nil && !p.model.HasVariables() && op.C%2 == 1 {
				// the same message written with three length bytes everywhere (legal, non-minimal)
				mm := &model.Msg{Session: p.msg.SessionID(), Stream: p.msg.StreamCode(), Function: p.msg.FunctionCode(), Wait: p.msg.WaitBit() == "true", Item: p.model}
				copy(mm.System[:], p.msg.SystemBytes())
				nlb := make([]int, 64)
				for i := range nlb {
					nlb[i] = 3
				}
				if enc, _, err := model.RefEncodeMsg(mm, &model.EncOpts{NLB: nlb}); err == nil {
					buf = enc
				}
			}
			dec, ok := hsms.Parse(buf)
			if ok {
				derivations++
				if dm, isData := dec.(*ast.DataMessage); isData {
					enter(&pooled{msg: dm, model: p.model, from: "hsms.Parse"})
				} else {
					enter(&pooled{ctrl: dec, from: "hsms.Parse"})
				}
			}
			writes += scribbleBytes(buf)
		case "ctrl":
			sys := append([]byte{0, 0, 0, 0}, op.Sys...)[len(op.Sys):][:4]
			sys = append([]byte(nil), sys...)
			hdr := []byte{byte(op.N >> 8), byte(op.N), byte(op.A), byte(op.B), 0, byte(1 + (op.C/6)%9), sys[0], sys[1], sys[2], sys[3]}
			var m ast.HSMSMessage
			switch op.C % 6 {
			case 0:
				if op.B%4 == 3 {
					hdr = hdr[:10-op.B%8] // a shorter header slice: still copied, never kept
				}
				m = ast.NewHSMSControlMessage(hdr)
				enter(&pooled{ctrl: m, from: "NewHSMSControlMessage"})
				writes += scribbleBytes(hdr)
			case 1:
				m = ast.NewHSMSMessageSelectReq(uint16(op.N), sys)
			case 2:
				m = ast.NewHSMSMessageDeselectReq(uint16(op.N), sys)
			case 3:
				m = ast.NewHSMSMessageLinktestReq(sys)
			case 4:
				m = ast.NewHSMSMessageSeparateReq(uint16(op.N), sys)
			default:
				m = ast.NewHSMSMessageRejectReq(uint16(op.N), byte(op.A), byte(op.B), sys, byte(op.C))
			}
			if op.C%6 != 0 {
				enter(&pooled{ctrl: m, from: "control constructor " + m.Type()})
				writes += scribbleBytes(sys)
			}
		case "rsp":
			p := pick(op.A, func(p *pooled) bool { return p.ctrl != nil })
			if p == nil {
				continue
			}
			var m ast.HSMSMessage
			try(func() {
				switch p.ctrl.Type() {
				case "select.req":
					m = ast.NewHSMSMessageSelectRsp(p.ctrl, byte(op.N))
				case "deselect.req":
					m = ast.NewHSMSMessageDeselectRsp(p.ctrl, byte(op.N))
				case "linktest.req":
					m = ast.NewHSMSMessageLinktestRsp(p.ctrl)
				}
			})
			if m != nil {
				derivations++
				enter(&pooled{ctrl: m, from: "response constructor " + m.Type()})
			}
		default:
			return ci, fmt.Errorf("harness: unknown op %q", op.Kind)
		}
		if err := verify(step, op); err != nil {
			return ci, err
		}
	}
	ci.Nontrivial = writes >= 1 && derivations >= 1
	ci.label("pool=%d", min(len(pool)/4*4, 20))
	return ci, nil
}

func genC11(t *rapid.T) c11Case {
	c := c11Case{Variant: rapid.IntRange(0, 11).Draw(t, "variant")}
	n := rapid.IntRange(2, 30).Draw(t, "nops")
	nm := newNamer(false, false)
	kinds := []string{"item", "item", "list", "fill", "fill", "fillitem", "newmsg", "hsmsmsg", "setwait", "setsession", "observe", "observe", "decode", "ctrl", "rsp"}
	for i := 0; i < n; i++ {
		op := c11Op{
			Kind: rapid.SampledFrom(kinds).Draw(t, "op"),
			A:    rapid.IntRange(0, 255).Draw(t, "a"),
			B:    rapid.IntRange(0, 255).Draw(t, "b"),
			C:    rapid.IntRange(0, 255).Draw(t, "c"),
			N:    rapid.IntRange(0, 65535).Draw(t, "n"),
		}
		if i == 0 {
			op.Kind = "item"
		}
		switch op.Kind {
		case "item":
			op.Tree = genTree(t, treeOpts{Vars: rapid.Bool().Draw(t, "vars"), Ellipsis: true, NoDeep: true, MaxDepth: 3, MaxElems: 4, VarPct: 35}, nm)
			numberEllipses(op.Tree)
		case "newmsg", "hsmsmsg":
			h := genHdr(t, op.Kind == "hsmsmsg")
			op.Hdr = &h
			if rapid.IntRange(0, 3).Draw(t, "longSys") == 3 {
				op.Sys = rapid.SliceOfN(rapid.Byte(), 1, 4).Draw(t, "sysTail")
			}
		case "setsession", "ctrl":
			op.Sys = rapid.SliceOfN(rapid.Byte(), 0, 6).Draw(t, "sys")
		}
		c.Ops = append(c.Ops, op)
	}
	return c
}

func TestC11(t *testing.T) {
	rapidProp(t, "C11", "c11", genC11, checkC11)
}

// itemVariablesOf lists the item variables (list-level names, not ellipses) of a model tree.
func itemVariablesOf(n *model.Node) []string {
	var out []string
	n.Walk(func(x *model.Node) {
		if x.Kind != model.L || x.Bulk != nil {
			return
		}
		for _, c := range x.Children {
			if c.Node == nil && !model.IsEllipsisName(c.Var) {
				out = append(out, c.Var)
			}
		}
	})
	return out
}
