package props

import (
	"encoding/binary"
	"fmt"
	"testing"

	"verifharness/model"

	"github.com/wolimst/lib-secs2-hsms-go/pkg/ast"
	"github.com/wolimst/lib-secs2-hsms-go/pkg/parser/hsms"

	"pgregory.net/rapid"
)

// C16 for the objects the DECODER hands out: whatever frame hsms.Parse accepts - well formed or damaged - the message it
// returns lists exactly the variables its printed form shows (a decoded message can have none) and encodes iff it has none.

type c16Dec struct {
	Frame model.HexBytes `json:"frame"`
	Note  string         `json:"note"`
}

func init() { registerReplay("c16dec", checkC16Dec) }

func checkC16Dec(c c16Dec) (ci caseInfo, err error) {
	ci.label("decoded:%s", c.Note)
	in := append([]byte{}, c.Frame...)
	msg, ok := hsms.Parse(in)
	if !ok {
		ci.label("decoded:refused")
		return ci, nil
	}
	dm, isData := msg.(*ast.DataMessage)
	if !isData {
		ci.label("decoded:control")
		return ci, nil
	}
	ci.label("decoded:accepted")
	ci.Nontrivial = c.Note != "intact"
	vars := dm.Variables()
	enc := dm.ToBytes()
	if len(vars) != 0 {
		return ci, fmt.Errorf("frame %x (%s): the decoded message lists the variables %q - a decoded message has none\n%s", []byte(c.Frame), c.Note, vars, clipStr(dm.String(), 300))
	}
	if len(enc) == 0 {
		return ci, fmt.Errorf("frame %x (%s): the decoded message lists no variable but ToBytes() is empty\n%s", []byte(c.Frame), c.Note, clipStr(dm.String(), 300))
	}
	printed := itemPart(trimTerminator(dm.String()))
	if printed == "" {
		// header-only message: its encoding is the frame header alone
		if len(enc) != 14 {
			return ci, fmt.Errorf("frame %x (%s): the decoded message prints no item but encodes to %d bytes", []byte(c.Frame), c.Note, len(enc))
		}
		return ci, nil
	}
	pn, rerr := model.ReadItem(printed)
	if rerr != nil {
		return ci, fmt.Errorf("frame %x (%s): printed form of the decoded message is unreadable: %v\n%s", []byte(c.Frame), c.Note, rerr, clipStr(printed, 300))
	}
	if names := pn.Names(); len(names) != 0 {
		return ci, fmt.Errorf("frame %x (%s): the printed form shows the names %q, Variables() none", []byte(c.Frame), c.Note, names)
	}
	// every printed list shows as many children as its size says, and the encoding holds exactly the printed tree
	var walk func(n *model.PNode) error
	walk = func(n *model.PNode) error {
		if n.Kind == model.L {
			if n.HasSize {
				if fmt.Sprint(len(n.Children)) != n.SizeText {
					return fmt.Errorf("a list printed with size [%s] shows %d children", n.SizeText, len(n.Children))
				}
			}
			for _, ch := range n.Children {
				if ch.Node != nil {
					if err := walk(ch.Node); err != nil {
						return err
					}
				}
			}
		}
		return nil
	}
	if err := walk(pn); err != nil {
		return ci, fmt.Errorf("frame %x (%s): %v\n%s", []byte(c.Frame), c.Note, err, clipStr(printed, 300))
	}
	if len(enc) <= 14 {
		return ci, fmt.Errorf("frame %x (%s): the decoded message prints an item but encodes to the %d header bytes only\n%s", []byte(c.Frame), c.Note, len(enc), clipStr(printed, 300))
	}
	return ci, nil
}

func trimTerminator(s string) string {
	for len(s) > 0 && (s[len(s)-1] == '.' || s[len(s)-1] == '\n') {
		s = s[:len(s)-1]
	}
	return s
}

func genC16Dec(t *rapid.T) c16Dec {
	h := genHdr(t, true)
	tree := genTree(t, treeOpts{NoDeep: true, MaxDepth: 4, MaxElems: 4, ASCIIMax: 5}, newNamer(false, false))
	if rapid.IntRange(0, 2).Draw(t, "listRoot") > 0 && tree.Kind != model.L {
		tree = &model.Node{Kind: model.L, Children: []model.Child{{Node: tree}, {Node: &model.Node{Kind: model.L, Children: []model.Child{{Node: &model.Node{Kind: model.U1, Elems: []model.Elem{{U: 7}}}}}}}}}
	}
	m := &model.Msg{Session: h.Session, Stream: h.Stream, Function: h.Function, Wait: h.Wait == 1, Item: tree}
	copy(m.System[:], h.System)
	frame, _, err := model.RefEncodeMsg(m, nil)
	if err != nil {
		t.Fatalf("harness: %v", err)
	}
	c := c16Dec{Note: "intact"}
	patch := func(b []byte) []byte {
		if len(b) >= 4 {
			binary.BigEndian.PutUint32(b, uint32(len(b)-4))
		}
		return b
	}
	switch rapid.IntRange(0, 5).Draw(t, "damage") {
	case 0:
	case 1, 2:
		// cut the frame somewhere in the text (often right behind a complete child) and make the outer length fit
		if len(frame) > 15 {
			cut := rapid.IntRange(14, len(frame)-1).Draw(t, "cutAt")
			frame = patch(append([]byte{}, frame[:cut]...))
			c.Note = "cut+outer-length-patched"
		}
	case 3:
		if len(frame) > 14 {
			at := rapid.IntRange(14, len(frame)-1).Draw(t, "bumpAt")
			frame = append([]byte{}, frame...)
			frame[at] += byte(rapid.SampledFrom([]int{1, 255, 2}).Draw(t, "bumpBy"))
			c.Note = "one-byte-changed"
		}
	case 4:
		k := rapid.IntRange(1, 3).Draw(t, "extra")
		frame = patch(append(append([]byte{}, frame...), make([]byte, k)...))
		c.Note = "bytes-appended+outer-length-patched"
	default:
		if len(frame) > 15 {
			at := rapid.IntRange(14, len(frame)-1).Draw(t, "dropAt")
			frame = patch(append(append([]byte{}, frame[:at]...), frame[at+1:]...))
			c.Note = "one-byte-removed+outer-length-patched"
		}
	}
	c.Frame = frame
	return c
}

func TestC16Decoded(t *testing.T) {
	rapidProp(t, "C16", "c16dec", genC16Dec, checkC16Dec)
}
