package props

import (
	"encoding/binary"
	"encoding/json"
	"fmt"
	"hash/fnv"
	"os"
	"path/filepath"
	"runtime/debug"
	"sort"
	"strconv"
	"strings"
	"sync"
	"testing"
	"time"

	"pgregory.net/rapid"
)

// ---------------------------------------------------------------------------
// statistics (flushed by TestMain to $VERIF_STATS and $VERIF_STATS.hashes)

const maxStoredHashes = 6_000_000

type sampleEntry struct {
	hash uint64
	data json.RawMessage
}

type statsT struct {
	mu           sync.Mutex
	Evaluations  int64
	Nontrivial   int64 // evaluations that were non-trivial (not de-duplicated)
	hashes       map[uint64]struct{}
	hashOverflw  int64
	bulkDistinct int64 // non-trivial cases that are distinct by construction (sweeps), not hashed
	Labels       map[string]int64
	Excluded     map[string]int64
	first        []sampleEntry // first few non-trivial cases
	lowest       []sampleEntry // non-trivial cases with the lowest hashes (a deterministic "random" sample)
	Notes        []string
	Extra        map[string]interface{}
}

var stats = &statsT{
	hashes:   map[uint64]struct{}{},
	Labels:   map[string]int64{},
	Excluded: map[string]int64{},
	Extra:    map[string]interface{}{},
}

func hashBytes(b []byte) uint64 {
	h := fnv.New64a()
	h.Write(b)
	return h.Sum64()
}

// caseInfo is what a check reports about a case besides pass/fail.
type caseInfo struct {
	Nontrivial bool
	Labels     []string
	// Key overrides the distinctness key (default: the JSON of the case).
	Key string
}

func (ci *caseInfo) label(format string, args ...interface{}) {
	if len(args) == 0 {
		ci.Labels = append(ci.Labels, format)
		return
	}
	ci.Labels = append(ci.Labels, fmt.Sprintf(format, args...))
}

// record adds one evaluated case to the statistics. sample may be nil; it is
// only marshalled when the case is kept as a sample.
func (s *statsT) record(key []byte, ci *caseInfo, sample func() interface{}) {
	s.mu.Lock()
	defer s.mu.Unlock()
	s.Evaluations++
	for _, l := range ci.Labels {
		s.Labels[l]++
	}
	if !ci.Nontrivial {
		return
	}
	s.Nontrivial++
	h := hashBytes(key)
	if _, dup := s.hashes[h]; dup {
		return
	}
	if len(s.hashes) < maxStoredHashes {
		s.hashes[h] = struct{}{}
	} else {
		s.hashOverflw++
		return
	}
	if sample == nil {
		return
	}
	keep := len(s.first) < 3 || len(s.lowest) < 3 || h < s.lowest[len(s.lowest)-1].hash
	if !keep {
		return
	}
	raw, err := json.Marshal(sample())
	if err != nil {
		return
	}
	if len(raw) > 3000 {
		raw, _ = json.Marshal(map[string]interface{}{"truncated_case_json": string(raw[:3000])})
	}
	if len(s.first) < 3 {
		s.first = append(s.first, sampleEntry{h, raw})
		return
	}
	s.lowest = append(s.lowest, sampleEntry{h, raw})
	sort.Slice(s.lowest, func(i, j int) bool { return s.lowest[i].hash < s.lowest[j].hash })
	if len(s.lowest) > 3 {
		s.lowest = s.lowest[:3]
	}
}

// bulk accounts for n evaluations of an enumeration whose cases are distinct by
// construction (the shards partition the space), without hashing each of them.
func (s *statsT) bulk(label string, n, nontrivial int64) {
	s.mu.Lock()
	s.Evaluations += n
	s.Nontrivial += nontrivial
	s.bulkDistinct += nontrivial
	s.Labels[label] += n
	s.mu.Unlock()
}

// addSample stores a sample directly (used by sweeps).
func (s *statsT) addSample(v interface{}) {
	s.mu.Lock()
	defer s.mu.Unlock()
	if len(s.first) >= 3 {
		return
	}
	raw, err := json.Marshal(v)
	if err == nil {
		s.first = append(s.first, sampleEntry{0, raw})
	}
}

func (s *statsT) exclude(what string) {
	s.mu.Lock()
	s.Excluded[what]++
	s.mu.Unlock()
}

func (s *statsT) labelOnly(l string, n int64) {
	s.mu.Lock()
	s.Labels[l] += n
	s.mu.Unlock()
}

func (s *statsT) note(format string, args ...interface{}) {
	s.mu.Lock()
	s.Notes = append(s.Notes, fmt.Sprintf(format, args...))
	s.mu.Unlock()
}

func (s *statsT) setExtra(k string, v interface{}) {
	s.mu.Lock()
	s.Extra[k] = v
	s.mu.Unlock()
}

func (s *statsT) flush(path string) error {
	s.mu.Lock()
	defer s.mu.Unlock()
	samples := []json.RawMessage{}
	for _, e := range s.first {
		samples = append(samples, e.data)
	}
	for _, e := range s.lowest {
		samples = append(samples, e.data)
	}
	out := map[string]interface{}{
		"evaluations":       s.Evaluations,
		"nontrivial_evals":  s.Nontrivial,
		"distinct_in_shard": len(s.hashes),
		"hash_overflow":     s.hashOverflw,
		"bulk_distinct":     s.bulkDistinct,
		"labels":            s.Labels,
		"excluded":          s.Excluded,
		"samples":           samples,
		"notes":             s.Notes,
		"extra":             s.Extra,
	}
	raw, err := json.Marshal(out)
	if err != nil {
		return err
	}
	if err := os.WriteFile(path, raw, 0o644); err != nil {
		return err
	}
	hb := make([]byte, 0, 8*len(s.hashes))
	for h := range s.hashes {
		hb = binary.LittleEndian.AppendUint64(hb, h)
	}
	return os.WriteFile(path+".hashes", hb, 0o644)
}

// mergeHashes (VERIF_MERGE mode) counts the distinct hashes in a set of files.
func mergeHashes(files []string) (int, error) {
	var all []uint64
	for _, f := range files {
		b, err := os.ReadFile(f)
		if err != nil {
			return 0, err
		}
		for i := 0; i+8 <= len(b); i += 8 {
			all = append(all, binary.LittleEndian.Uint64(b[i:]))
		}
	}
	sort.Slice(all, func(i, j int) bool { return all[i] < all[j] })
	n := 0
	for i, h := range all {
		if i == 0 || h != all[i-1] {
			n++
		}
	}
	return n, nil
}

// ---------------------------------------------------------------------------
// environment helpers

func envInt(name string, def int) int {
	if v := os.Getenv(name); v != "" {
		if n, err := strconv.Atoi(v); err == nil {
			return n
		}
	}
	return def
}

func isThorough() bool { return os.Getenv("VERIF_TIER") == "thorough" }

func shardInfo() (shard, nshards int) {
	nshards = envInt("VERIF_NSHARDS", 1)
	shard = envInt("VERIF_SHARD", 0)
	if nshards < 1 {
		nshards = 1
	}
	return shard % nshards, nshards
}

func verifSeed() uint64 {
	v := os.Getenv("VERIF_SHARD_SEED")
	if v == "" {
		return 1
	}
	n, err := strconv.ParseUint(v, 10, 64)
	if err != nil || n == 0 {
		return 1
	}
	return n
}

// ---------------------------------------------------------------------------
// failures, replay files, corpus

type fataler interface {
	Helper()
	Fatalf(format string, args ...interface{})
}

type replayFile struct {
	Property string          `json:"property"`
	Check    string          `json:"check"` // which checkCase function reads Case
	Error    string          `json:"error,omitempty"`
	Case     json.RawMessage `json:"case"`
}

// replayers maps "check" names to functions that run one stored case.
var replayers = map[string]func(raw json.RawMessage) error{}

func registerReplay[C any](name string, check func(C) (caseInfo, error)) {
	replayers[name] = func(raw json.RawMessage) error {
		var c C
		if err := json.Unmarshal(raw, &c); err != nil {
			return fmt.Errorf("cannot decode case for %s: %v", name, err)
		}
		_, err := safeCheck(check, c)
		return err
	}
}

// safeCheck runs a check and converts a panic of the harness or of the code
// under test (outside the places where a check expects one) into an error.
func safeCheck[C any](check func(C) (caseInfo, error), c C) (ci caseInfo, err error) {
	defer func() {
		if r := recover(); r != nil {
			err = fmt.Errorf("unexpected panic: %v\n%s", r, trimStack(debug.Stack()))
		}
	}()
	return check(c)
}

func trimStack(b []byte) string {
	s := string(b)
	if len(s) > 2500 {
		s = s[:2500] + "\n..."
	}
	return s
}

var replaySeq struct {
	mu sync.Mutex
	n  int
}

// writeReplay stores a failing case; the path is a function of (property,
// check, shard) so that the shrunk case overwrites the earlier ones.
func writeReplay(property, check string, c interface{}, cerr error) string {
	dir := os.Getenv("VERIF_REPLAY_DIR")
	if dir == "" {
		dir = filepath.Join(os.TempDir(), "verif-replays")
	}
	_ = os.MkdirAll(dir, 0o755)
	raw, err := json.Marshal(c)
	if err != nil {
		raw, _ = json.Marshal(fmt.Sprintf("unmarshalable case: %v", err))
	}
	rf := replayFile{Property: property, Check: check, Error: cerr.Error(), Case: raw}
	out, _ := json.MarshalIndent(rf, "", " ")
	shard, _ := shardInfo()
	p := filepath.Join(dir, fmt.Sprintf("%s-%s-s%d-seed%s.json", property, check, shard, os.Getenv("VERIF_SEED_TAG")))
	_ = os.WriteFile(p, out, 0o644)
	return p
}

// runCase is the common path of every generated / enumerated case.
func runCase[C any](t fataler, property, checkName string, check func(C) (caseInfo, error), c C) {
	t.Helper()
	t0 := time.Now()
	ci, err := safeCheck(check, c)
	if d := time.Since(t0); d > 3*time.Second {
		raw, _ := json.Marshal(c)
		if len(raw) > 600 {
			raw = raw[:600]
		}
		stats.note("slow case (%.1fs) in %s: %s", d.Seconds(), checkName, raw)
		fmt.Printf("SLOW-CASE %.1fs %s %s\n", d.Seconds(), checkName, raw)
	}
	var key []byte
	if ci.Key != "" {
		key = []byte(ci.Key)
	} else {
		key, _ = json.Marshal(c)
	}
	stats.record(key, &ci, func() interface{} { return c })
	if err != nil {
		p := writeReplay(property, checkName, c, err)
		t.Fatalf("PROPERTY-VIOLATION property=%s check=%s replay=%s\n%v", property, checkName, p, err)
	}
}

// rapidProp wires a generator and a check into rapid.Check.
func rapidProp[C any](t *testing.T, property, checkName string, gen func(*rapid.T) C, check func(C) (caseInfo, error)) {
	rapid.Check(t, func(rt *rapid.T) {
		c := gen(rt)
		runCase[C](rt, property, checkName, check, c)
	})
}

// TestReplay re-runs one stored case ($VERIF_REPLAY) with no library in between.
func TestReplay(t *testing.T) {
	p := os.Getenv("VERIF_REPLAY")
	if p == "" {
		t.Skip("VERIF_REPLAY not set")
	}
	if err := replayOne(p); err != nil {
		t.Fatalf("PROPERTY-VIOLATION replay=%s\n%v", p, err)
	}
	fmt.Printf("REPLAY-OK %s\n", p)
}

func replayOne(path string) error {
	raw, err := os.ReadFile(path)
	if err != nil {
		return err
	}
	var rf replayFile
	if err := json.Unmarshal(raw, &rf); err != nil {
		return fmt.Errorf("bad replay file %s: %v", path, err)
	}
	fn, ok := replayers[rf.Check]
	if !ok {
		return fmt.Errorf("replay file %s names unknown check %q", path, rf.Check)
	}
	return fn(rf.Case)
}

// TestCorpus runs every committed regression case of $VERIF_PROPERTY.
func TestCorpus(t *testing.T) {
	dir := os.Getenv("VERIF_CORPUS_DIR")
	if dir == "" {
		t.Skip("VERIF_CORPUS_DIR not set")
	}
	files, _ := filepath.Glob(filepath.Join(dir, "*.json"))
	sort.Strings(files)
	failed := 0
	for _, f := range files {
		if err := replayOne(f); err != nil {
			failed++
			fmt.Printf("CORPUS-FAIL %s\n%s\n", f, indent(err.Error()))
		}
	}
	stats.setExtra("corpus_cases", len(files))
	if failed > 0 {
		t.Fatalf("%d corpus case(s) failed", failed)
	}
}

func indent(s string) string {
	return "    " + strings.ReplaceAll(s, "\n", "\n    ")
}

// ---------------------------------------------------------------------------

func TestMain(m *testing.M) {
	if w := os.Getenv("VERIF_WORKER"); w != "" {
		workerMain(w)
		return
	}
	if files := os.Getenv("VERIF_MERGE"); files != "" {
		n, err := mergeHashes(strings.Split(files, ":"))
		if err != nil {
			fmt.Fprintln(os.Stderr, err)
			os.Exit(2)
		}
		fmt.Printf("DISTINCT %d\n", n)
		os.Exit(0)
	}
	code := m.Run()
	if p := os.Getenv("VERIF_STATS"); p != "" {
		if err := stats.flush(p); err != nil {
			fmt.Fprintln(os.Stderr, "stats flush:", err)
		}
	}
	os.Exit(code)
}
