package props

import (
	"bytes"
	"fmt"
	"math"
	"sort"
	"strings"
	"testing"

	"verifharness/model"

	"github.com/wolimst/lib-secs2-hsms-go/pkg/ast"
	"github.com/wolimst/lib-secs2-hsms-go/pkg/parser/hsms"
	"github.com/wolimst/lib-secs2-hsms-go/pkg/parser/sml"
)

// C13 - the 16,777,215-byte limit and the length header are exact for every size.

var c13TypeNames = map[string]string{
	model.L: "list", model.A: "ascii", model.B: "binary", model.BOOLEAN: "boolean",
	model.I1: "i1", model.I2: "i2", model.I4: "i4", model.I8: "i8",
	model.U1: "u1", model.U2: "u2", model.U4: "u4", model.U8: "u8",
	model.F4: "f4", model.F8: "f8",
}

type c13HeaderCase struct {
	Kind  string `json:"kind"`
	Count int    `json:"count"`
}

func init() { registerReplay("c13header", checkC13Header) }

// refHeader is the independent statement of the item header.
func refHeader(kind string, count int) ([]byte, bool) {
	n := count * model.Width(kind)
	if n > model.MaxLen {
		return nil, false
	}
	nlb := 3
	if n <= 255 {
		nlb = 1
	} else if n <= 65535 {
		nlb = 2
	}
	out := []byte{byte(model.FormatCode(kind)<<2 | nlb)}
	for i := nlb - 1; i >= 0; i-- {
		out = append(out, byte(n>>(8*uint(i))))
	}
	return out, true
}

func checkC13Header(c c13HeaderCase) (ci caseInfo, err error) {
	ci.Nontrivial = c.Count > 0
	ci.Key = fmt.Sprintf("%s/%d", c.Kind, c.Count)
	return ci, c13HeaderOne(c.Kind, c.Count)
}

func c13HeaderOne(kind string, count int) error {
	got, gerr := ast.VerifHeaderBytes(c13TypeNames[kind], count)
	want, ok := refHeader(kind, count)
	if !ok {
		if gerr == nil {
			return fmt.Errorf("header routine accepts %s x %d (%d bytes > 16,777,215): %x", kind, count, count*model.Width(kind), got)
		}
		return nil
	}
	if gerr != nil {
		return fmt.Errorf("header routine refuses %s x %d (%d bytes <= 16,777,215): %v", kind, count, count*model.Width(kind), gerr)
	}
	if !bytes.Equal(got, want) {
		return fmt.Errorf("header of %s x %d is %x, want %x", kind, count, got, want)
	}
	return nil
}

// TestC13Sweep sweeps (format, element count) through the verif-tagged export.
func TestC13Sweep(t *testing.T) {
	shard, nshards := shardInfo()
	thorough := isThorough()
	var total, nontrivial int64
	for _, kind := range model.AllKinds {
		w := model.Width(kind)
		maxCount := model.MaxLen/w + 64
		check := func(count int) {
			total++
			if count > 0 {
				nontrivial++
			}
			if err := c13HeaderOne(kind, count); err != nil {
				c := c13HeaderCase{Kind: kind, Count: count}
				p := writeReplay("C13", "c13header", c, err)
				t.Fatalf("PROPERTY-VIOLATION property=C13 check=c13header replay=%s\n%v", p, err)
			}
		}
		if thorough {
			for count := shard; count <= maxCount; count += nshards {
				check(count)
			}
			continue
		}
		// quick: all counts <= 70000, +-300 around every border, a seeded stride through the rest
		done := map[int]bool{}
		for count := shard; count <= 70000 && count <= maxCount; count += nshards {
			check(count)
			done[count] = true
		}
		for _, border := range []int{255, 256, 65535, 65536, model.MaxLen, model.MaxLen + 1} {
			c0 := border / w
			for count := c0 - 300; count <= c0+300; count++ {
				if count < 0 || count > maxCount || done[count] || count%nshards != shard {
					continue
				}
				check(count)
				done[count] = true
			}
		}
		stride := 997 + int(verifSeed()%1000)*2
		for count := 70001 + int(verifSeed()%uint64(stride)); count <= maxCount; count += stride {
			if count%nshards == shard && !done[count] {
				check(count)
			}
		}
	}
	stats.bulk("sweep:header", total, nontrivial)
	stats.addSample(map[string]interface{}{"sweep": "VerifHeaderBytes(type, count) vs reference header", "example": c13HeaderCase{Kind: model.U2, Count: 32768 + shard}, "cases_in_this_shard": total})
	if thorough {
		stats.setExtra("header_sweep", "exhaustive: every element count with count*width in 0..16,777,215 plus the next 64 counts, all 14 formats")
	} else {
		stats.setExtra("header_sweep", "all counts <= 70000, +-300 around 255|256, 65535|65536 and the limit, seeded stride through the rest")
	}
}

// ---------------------------------------------------------------------------
// real items at the borders

type c13ItemCase struct {
	Kind  string `json:"kind"`
	Count int    `json:"count"`
	// Ellipsis (lists only): the last of the Count entries is an ellipsis "..." - an entry like any other
	// for the limit, which is defined on the number of entries
	Ellipsis bool `json:"ellipsis,omitempty"`
	// Fill selects the value every element holds (0: the plain one; 1: the largest of the format / all bits set;
	// 2: the smallest / sign bit only; 3: a byte pattern with telling bytes): the length field must be read back whatever the payload is
	Fill int `json:"fill,omitempty"`
}

func init() { registerReplay("c13item", checkC13Item) }

// uniformArgs builds count factory arguments cheaply (one shared value).
func uniformArgs(kind string, count int, fill ...int) []interface{} {
	args := make([]interface{}, count)
	f := 0
	if len(fill) > 0 {
		f = fill[0] % 4
	}
	w := uint(8 * model.Width(kind))
	var v interface{}
	switch {
	case kind == model.L:
		v = ast.NewBinaryNode()
	case kind == model.B:
		v = []int{0xA5, 0xFF, 0x00, 0x0A}[f]
	case kind == model.BOOLEAN:
		v = f%2 == 0
	case model.IsSigned(kind):
		v = []int64{-1, 1<<(w-1) - 1, -1 << (w - 1), 0x0D0A2E3C0D0A2E3C >> (64 - w)}[f]
	case model.IsUnsigned(kind):
		v = []uint64{1, 1<<w - 1, 1 << (w - 1), 0xFF0A2E3CFF0A2E3C >> (64 - w)}[f]
	default:
		v = []float64{1.5, -3.25e30, math.Copysign(0, -1), float64(math.Float32frombits(0x00800001))}[f]
	}
	for i := range args {
		args[i] = v
	}
	return args
}

func asciiFill(fill int) byte { return []byte{'x', 0x7F, 0x00, '%'}[fill%4] }

func buildUniform(kind string, count int, fill ...int) ast.ItemNode {
	f := 0
	if len(fill) > 0 {
		f = fill[0]
	}
	if kind == model.A {
		return ast.NewASCIINode(string(bytes.Repeat([]byte{asciiFill(f)}, count)))
	}
	args := uniformArgs(kind, count, f)
	switch {
	case kind == model.L:
		return ast.NewListNode(args...)
	case kind == model.B:
		return ast.NewBinaryNode(args...)
	case kind == model.BOOLEAN:
		return ast.NewBooleanNode(args...)
	case model.IsSigned(kind):
		return ast.NewIntNode(model.Width(kind), args...)
	case model.IsUnsigned(kind):
		return ast.NewUintNode(model.Width(kind), args...)
	}
	return ast.NewFloatNode(model.Width(kind), args...)
}

func checkC13Item(c c13ItemCase) (ci caseInfo, err error) {
	ci.Nontrivial = c.Count > 0
	ci.Key = fmt.Sprintf("item/%s/%d/%d", c.Kind, c.Count, c.Fill)
	ci.label("item-fill:%d", c.Fill%4)
	w := model.Width(c.Kind)
	within := c.Count*w <= model.MaxLen
	ci.label("item:%s", map[bool]string{true: "constructible", false: "beyond-limit"}[within])
	var item ast.ItemNode
	panicked, msg := try(func() { item = buildUniform(c.Kind, c.Count, c.Fill) })
	if c.Ellipsis && c.Kind == model.L && c.Count >= 2 {
		ci.Key += "/ellipsis"
		ci.label("list-with-ellipsis-entry")
		args := uniformArgs(model.L, c.Count)
		args[c.Count-1] = "..."
		panicked, msg = try(func() { item = ast.NewListNode(args...) })
		if within != !panicked {
			return ci, fmt.Errorf("list of %d entries, the last one an ellipsis (limit 16,777,215 entries): refused=%v (%s)", c.Count, panicked, msg)
		}
		if !panicked && item.Size() != c.Count {
			return ci, fmt.Errorf("list of %d entries, the last one an ellipsis: Size() = %d", c.Count, item.Size())
		}
		return ci, nil
	}
	if c.Kind == model.A {
		// the same string through the other way an ASCII item comes into being: filling a variable
		var viaFill ast.ItemNode
		p2, _ := try(func() {
			viaFill = ast.NewASCIINodeVariable("v", 0, -1).FillVariables(map[string]interface{}{"v": string(bytes.Repeat([]byte{asciiFill(c.Fill)}, c.Count))})
		})
		if p2 != panicked {
			return ci, fmt.Errorf("ASCII of %d characters: the factory %s it, filling a variable %s it", c.Count, map[bool]string{true: "refuses", false: "accepts"}[panicked], map[bool]string{true: "refuses", false: "accepts"}[p2])
		}
		if !p2 && !bytes.Equal(viaFill.ToBytes(), item.ToBytes()) {
			return ci, fmt.Errorf("ASCII of %d characters: filled item encodes differently from the constructed one", c.Count)
		}
		ci.label("ascii-also-via-fill")
	}
	if !within {
		if !panicked {
			return ci, fmt.Errorf("%s with %d elements (%d bytes > 16,777,215) was constructed", c.Kind, c.Count, c.Count*w)
		}
		return ci, nil
	}
	if panicked {
		return ci, fmt.Errorf("%s with %d elements (%d bytes <= 16,777,215) was refused: %s", c.Kind, c.Count, c.Count*w, msg)
	}
	if item.Size() != c.Count {
		return ci, fmt.Errorf("%s built with %d elements reports Size() %d", c.Kind, c.Count, item.Size())
	}
	b := item.ToBytes()
	want, _ := refHeader(c.Kind, c.Count)
	if len(b) == 0 {
		return ci, fmt.Errorf("constructible item %s x %d encodes to the empty byte string", c.Kind, c.Count)
	}
	if !bytes.HasPrefix(b, want) {
		return ci, fmt.Errorf("%s x %d: encoding starts with %x, want header %x", c.Kind, c.Count, b[:4], want)
	}
	payload := c.Count * w
	if c.Kind == model.L {
		payload = c.Count * 2 // each child is an empty <B>: 21 00
	}
	if len(b) != len(want)+payload {
		return ci, fmt.Errorf("%s x %d: encoding has %d bytes, want %d", c.Kind, c.Count, len(b), len(want)+payload)
	}
	// decode it back inside a message frame
	msgBytes := ast.NewHSMSDataMessage("", 1, 1, 0, "H->E", item, 1, []byte{0, 0, 0, 1}).ToBytes()
	dec, ok := hsms.Parse(msgBytes)
	if !ok {
		return ci, fmt.Errorf("hsms.Parse rejects a message holding %s x %d", c.Kind, c.Count)
	}
	if back := dec.ToBytes(); !bytes.Equal(back, msgBytes) {
		return ci, fmt.Errorf("decoder read the length field of %s x %d differently: %s", c.Kind, c.Count, firstDiff(back, msgBytes))
	}
	return ci, nil
}

// lists whose children are large: a list's own length field counts children, not bytes, so a list of items
// that together exceed 16,777,215 bytes is perfectly constructible and encodable
type c13NestedCase struct {
	Kind     string `json:"kind"`
	Children []int  `json:"children"` // element counts of the child items
}

func init() { registerReplay("c13nested", checkC13Nested) }

func checkC13Nested(c c13NestedCase) (ci caseInfo, err error) {
	ci.Nontrivial = true
	ci.Key = fmt.Sprintf("nested/%s/%v", c.Kind, c.Children)
	ci.label("nested-large-children")
	args := make([]interface{}, len(c.Children))
	total := 0
	for i, n := range c.Children {
		args[i] = buildUniform(c.Kind, n)
		hb, _ := refHeader(c.Kind, n)
		total += len(hb) + n*model.Width(c.Kind)
	}
	var lst ast.ItemNode
	if p, msg := try(func() { lst = ast.NewListNode(args...) }); p {
		return ci, fmt.Errorf("list of %d %s items with %v elements refused: %s", len(args), c.Kind, c.Children, msg)
	}
	lh, _ := refHeader(model.L, len(args))
	b := lst.ToBytes()
	if len(b) != len(lh)+total || !bytes.HasPrefix(b, lh) {
		return ci, fmt.Errorf("list of %s items with %v elements encodes to %d bytes, want %d (header %x)", c.Kind, c.Children, len(b), len(lh)+total, lh)
	}
	msgBytes := ast.NewHSMSDataMessage("", 1, 1, 0, "H->E", lst, 1, []byte{0, 0, 0, 1}).ToBytes()
	if len(msgBytes) != 14+len(b) {
		return ci, fmt.Errorf("message around the list encodes to %d bytes, want %d", len(msgBytes), 14+len(b))
	}
	dec, ok := hsms.Parse(msgBytes)
	if !ok || !bytes.Equal(dec.ToBytes(), msgBytes) {
		return ci, fmt.Errorf("message around a list of %s items with %v elements does not decode back (ok=%v)", c.Kind, c.Children, ok)
	}
	return ci, nil
}

// the limit also governs lists that come into being by expanding an ellipsis
type c13ExpandCase struct {
	Trailing int `json:"trailing"` // entries after the ellipsis
	Repeat   int `json:"repeat"`
	// Nested: the expanded list is the second child of an outer list <L <U1 1> <L <B> ... > > - a list is checked against the
	// limit wherever it sits
	Nested bool `json:"nested,omitempty"`
}

func init() { registerReplay("c13expand", checkC13Expand) }

func checkC13Expand(c c13ExpandCase) (ci caseInfo, err error) {
	ci.Nontrivial = true
	ci.Key = fmt.Sprintf("expand/%d/%d/%v", c.Trailing, c.Repeat, c.Nested)
	ci.label("expansion-route")
	if c.Nested {
		ci.label("expansion-route:nested-list")
	}
	args := []interface{}{ast.NewBinaryNode(), "..."}
	for i := 0; i < c.Trailing; i++ {
		args = append(args, ast.NewBinaryNode())
	}
	tmpl := ast.NewListNode(args...)
	var outerHdr []byte
	if c.Nested {
		tmpl = ast.NewListNode(ast.NewUintNode(1, 1), tmpl)
		outerHdr = []byte{0x01, 0x02, 0xA5, 0x01, 0x01}
	}
	want := c.Repeat + 1 + c.Trailing
	var res ast.ItemNode
	panicked, msg := try(func() { res = tmpl.FillVariables(map[string]interface{}{"...": c.Repeat}) })
	if within := want <= model.MaxLen; within == panicked {
		return ci, fmt.Errorf("expanding <L <B> ... +%d entries> with %d: the result has %d entries (limit 16,777,215), panicked=%v (%s)", c.Trailing, c.Repeat, want, panicked, msg)
	}
	if !panicked {
		lh, _ := refHeader(model.L, want)
		lh = append(append([]byte{}, outerHdr...), lh...)
		size := want
		if c.Nested {
			size = 2
		}
		if b := res.ToBytes(); res.Size() != size || !bytes.HasPrefix(b, lh) || len(b) != len(lh)+2*want {
			return ci, fmt.Errorf("expanded list (nested=%v) has Size %d, %d bytes; want %d entries, header %x", c.Nested, res.Size(), len(b), want, lh)
		}
	}
	return ci, nil
}

type c13SMLCase struct {
	Quoted int `json:"quoted"` // characters in the quoted run
	Codes  int `json:"codes"`  // character codes after it
}

func init() { registerReplay("c13sml", checkC13SML) }

func checkC13SML(c c13SMLCase) (ci caseInfo, err error) {
	ci.Nontrivial = true
	ci.Key = fmt.Sprintf("sml/%d/%d", c.Quoted, c.Codes)
	ci.label("sml-route")
	total := c.Quoted + c.Codes
	text := "S1F1 W H->E\n<A \"" + strings.Repeat("y", c.Quoted) + "\"" + strings.Repeat(" 0x0A", c.Codes) + ">\n."
	msgs, errs, _ := sml.Parse(text)
	if total <= model.MaxLen {
		if len(errs) != 0 || len(msgs) != 1 {
			return ci, fmt.Errorf("ASCII literal of %d quoted characters and %d codes (%d <= 16,777,215) is rejected: %q", c.Quoted, c.Codes, total, errs)
		}
		done := msgs[0].SetSessionIDAndSystemBytes(1, []byte{0, 0, 0, 1})
		lh, _ := refHeader(model.A, total)
		if b := done.ToBytes(); len(b) != 14+len(lh)+total || !bytes.Equal(b[14:14+len(lh)], lh) {
			return ci, fmt.Errorf("ASCII literal of %d characters parsed, but the message encodes to %d bytes (want %d)", total, len(b), 14+len(lh)+total)
		}
		return ci, nil
	}
	if len(errs) == 0 || len(msgs) != 0 {
		return ci, fmt.Errorf("ASCII literal of %d characters (> 16,777,215) is accepted", total)
	}
	return ci, nil
}

// a declared size is a claim about the number of elements WRITTEN, not a request for capacity: a small item whose
// declared upper bound lies at or beyond what the format can hold at all is still a small, constructible item
type c13DeclCase struct {
	Kind string `json:"kind"`
	Form string `json:"form"` // "[0..%d]" or "[..%d]"
	Hi   uint64 `json:"hi"`
}

func init() { registerReplay("c13decl", checkC13Decl) }

func checkC13Decl(c c13DeclCase) (ci caseInfo, err error) {
	ci.Nontrivial = true
	ci.Key = fmt.Sprintf("decl/%s/%s/%d", c.Kind, c.Form, c.Hi)
	ci.label("sml-small-item-with-large-declared-upper-bound")
	body := literalBody(c.Kind, 2)
	if c.Kind == model.L {
		body = " <U1 1> <U1 1>" // literalBody's two-entry list holds variables
	}
	text := "S1F1 W H->E\n<" + c.Kind + fmt.Sprintf(c.Form, c.Hi) + body + ">\n."
	msgs, errs, _ := sml.Parse(text)
	if len(errs) != 0 || len(msgs) != 1 {
		return ci, fmt.Errorf("a %s item of 2 elements declared %s is rejected: %q", c.Kind, fmt.Sprintf(c.Form, c.Hi), errs)
	}
	done := msgs[0].SetSessionIDAndSystemBytes(1, []byte{0, 0, 0, 1})
	lh, _ := refHeader(c.Kind, 2)
	if b := done.ToBytes(); len(b) < 14+len(lh) || !bytes.Equal(b[14:14+len(lh)], lh) {
		return ci, fmt.Errorf("a %s item of 2 elements declared %s encodes to %s", c.Kind, fmt.Sprintf(c.Form, c.Hi), hexPrefix(b, 24))
	}
	return ci, nil
}

func TestC13Items(t *testing.T) {
	shard, nshards := shardInfo()
	seq := 0
	for _, kind := range model.AllKinds {
		maxc := uint64(model.MaxLen / model.Width(kind))
		for _, hi := range []uint64{maxc - 1, maxc, maxc + 1, 2 * maxc, model.MaxLen + 1, 1 << 31, 1 << 40} {
			for _, form := range []string{"[0..%d]", "[..%d]", "[1..%d]"} {
				seq++
				if seq%nshards == shard {
					runCase[c13DeclCase](t, "C13", "c13decl", checkC13Decl, c13DeclCase{Kind: kind, Form: form, Hi: hi})
				}
			}
		}
	}
	nested := []c13NestedCase{
		{Kind: model.A, Children: []int{model.MaxLen}}, {Kind: model.B, Children: []int{9000000, 9000000}},
		{Kind: model.U1, Children: []int{model.MaxLen, 1}}, {Kind: model.A, Children: []int{model.MaxLen - 1, 3}},
		{Kind: model.U4, Children: []int{model.MaxLen / 4, 5}},
	}
	// every border size also as a CHILD of a list (alone, and between small siblings): the decoder reads the length
	// field of a child on a path of its own
	for _, kind := range model.AllKinds {
		if kind == model.L {
			continue
		}
		w := model.Width(kind)
		for _, border := range []int{255, 256, 65535, 65536} {
			for d := -2; d <= 1; d++ {
				if n := border/w + d; n >= 0 {
					nested = append(nested, c13NestedCase{Kind: kind, Children: []int{n}}, c13NestedCase{Kind: kind, Children: []int{3, n, 2}})
				}
			}
		}
	}
	for _, c := range nested {
		seq++
		if seq%nshards == shard {
			runCase[c13NestedCase](t, "C13", "c13nested", checkC13Nested, c)
		}
	}
	expands := []c13ExpandCase{{Trailing: 63, Repeat: 300000}, {Trailing: 15, Repeat: 1100000}, {Trailing: 0, Repeat: 70000}, {Trailing: 3, Repeat: 0}, {Trailing: 200, Repeat: 90000},
		{Trailing: 2, Repeat: 65533, Nested: true}, {Trailing: 0, Repeat: 254, Nested: true}, {Trailing: 0, Repeat: model.MaxLen, Nested: true}, {Trailing: 0, Repeat: model.MaxLen, Nested: false}}
	if isThorough() {
		expands = append(expands, c13ExpandCase{Trailing: 0, Repeat: model.MaxLen - 1}, c13ExpandCase{Trailing: 0, Repeat: model.MaxLen}, c13ExpandCase{Trailing: 2, Repeat: model.MaxLen - 2})
	}
	for _, c := range []c13SMLCase{{model.MaxLen, 0}, {model.MaxLen - 1, 1}, {model.MaxLen - 3, 3}, {model.MaxLen, 1}, {model.MaxLen + 1, 0}, {65535, 1}, {255, 1}} {
		seq++
		if seq%nshards == shard {
			runCase[c13SMLCase](t, "C13", "c13sml", checkC13SML, c)
		}
	}
	for _, c := range expands {
		seq++
		if seq%nshards == shard {
			runCase[c13ExpandCase](t, "C13", "c13expand", checkC13Expand, c)
		}
	}
	for _, kind := range model.AllKinds {
		w := model.Width(kind)
		counts := map[int]bool{0: true, 1: true}
		for _, border := range []int{255, 256, 65535, 65536} {
			for d := -1; d <= 1; d++ {
				counts[border/w+d] = true
			}
		}
		heavy := map[int]bool{}
		maxc := model.MaxLen / w
		big := isThorough() || w >= 4
		if big && kind != model.L {
			counts[maxc], counts[maxc-1] = true, true
			heavy[maxc], heavy[maxc-1] = true, true
		}
		if isThorough() && kind == model.L {
			counts[maxc] = true
		}
		// just beyond the limit: refused before anything is built
		counts[maxc+1] = true
		if w > 1 {
			counts[maxc+2] = true
		}
		sorted := make([]int, 0, len(counts))
		for count := range counts {
			sorted = append(sorted, count)
		}
		sort.Ints(sorted)
		for _, count := range sorted {
			seq++
			if seq%nshards != shard {
				continue
			}
			runCase[c13ItemCase](t, "C13", "c13item", checkC13Item, c13ItemCase{Kind: kind, Count: count})
			if kind != model.L {
				// the same size with other payloads (all of them for the sizes up to the 2|3 length-byte border, one more for the rest)
				for fill := 1; fill <= 3 && (fill == 1 || count <= 65537); fill++ {
					runCase[c13ItemCase](t, "C13", "c13item", checkC13Item, c13ItemCase{Kind: kind, Count: count, Fill: fill})
				}
			}
			if kind == model.L && count >= 2 && (count <= 65537 || count == maxc+1 || isThorough()) {
				runCase[c13ItemCase](t, "C13", "c13item", checkC13Item, c13ItemCase{Kind: kind, Count: count, Ellipsis: true})
			}
		}
	}
}
