package props

import (
	"fmt"
	"math"

	"verifharness/model"

	"github.com/wolimst/lib-secs2-hsms-go/pkg/ast"
)

// Assign is one variable -> value binding of the model.
type Assign struct {
	Name string      `json:"name"`
	Kind string      `json:"kind"` // kind of the owning array, "A" for an ASCII variable, "item" for an item variable
	Elem *model.Elem `json:"elem,omitempty"`
	Str  *string     `json:"str,omitempty"`
	Node *model.Node `json:"node,omitempty"`
	// Rename binds the variable to another variable name (a fill-in value that is itself a name).
	Rename string `json:"rename,omitempty"`
	// Alien, when set, binds the variable to a Go value that no item takes (nil, a struct, a slice, ...): refused everywhere.
	Alien string `json:"alien,omitempty"`
}

// goValue converts a binding to the Go value FillVariables expects.
func (a Assign) goValue(variant int) interface{} {
	switch {
	case a.Alien != "":
		v, _ := alienValue(a.Alien)
		return v
	case a.Rename != "":
		return a.Rename
	case a.Elem != nil:
		return goArg(a.Kind, *a.Elem, variant)
	case a.Str != nil:
		return *a.Str
	case a.Node != nil:
		return buildItem(a.Node, variant)
	}
	panic("empty Assign")
}

func assignMap(as []Assign, variant int) map[string]interface{} {
	m := make(map[string]interface{}, len(as))
	for _, a := range as {
		m[a.Name] = a.goValue(variant)
	}
	return m
}

// templatize replaces a pseudo-random subset (driven by mask) of the value
// positions of a variable-free tree by variables v0, v1, ... and returns the
// template with the bindings that restore the original tree.
func templatize(tree *model.Node, mask uint64) (*model.Node, []Assign) {
	return templatizeNamed(tree, mask, false)
}

// apiNames are legal variable names that mean something else as SML text or as a Go spelling of a value; they are used only
// for templates that never pass through SML text (a variable called T in a BOOLEAN item cannot be written there).
var apiNames = []string{"T", "F", "t", "f", "L", "A", "B", "u1", "I8", "F4", "BOOLEAN", "true", "false", "is_true", "falsey", "nil", "NaN", "Inf", "e5", "x", "X", "x[0]", "x[1]", "x[0][0]", "S1F1", "W"}

// templatizeNamed: with apiOnly about one name in four is taken from apiNames (each at most once) instead of v0, v1, ...
func templatizeNamed(tree *model.Node, mask uint64, apiOnly bool) (*model.Node, []Assign) {
	var as []Assign
	pos := uint64(0)
	pick := func() bool {
		pos++
		return model.Mix64(mask+pos*0x9E37)%3 == 0
	}
	usedAPI := map[string]bool{}
	name := func() string {
		if apiOnly {
			if h := model.Mix64(mask ^ uint64(len(as)+1)*0xA24BAED4963EE407); h%4 == 0 {
				if nm := apiNames[(h>>8)%uint64(len(apiNames))]; !usedAPI[nm] {
					usedAPI[nm] = true
					return nm
				}
			}
		}
		return fmt.Sprintf("v%d", len(as))
	}
	var walk func(n *model.Node, root bool) *model.Node
	walk = func(n *model.Node, root bool) *model.Node {
		if n.Bulk != nil {
			return n.Clone()
		}
		out := &model.Node{Kind: n.Kind}
		switch n.Kind {
		case model.L:
			for _, c := range n.Children {
				if c.Node == nil {
					out.Children = append(out.Children, c)
					continue
				}
				if pick() {
					nm := name()
					as = append(as, Assign{Name: nm, Kind: "item", Node: c.Node.Clone()})
					out.Children = append(out.Children, model.Child{Var: nm})
				} else {
					out.Children = append(out.Children, model.Child{Node: walk(c.Node, false)})
				}
			}
		case model.A:
			if n.AVar == nil && pick() {
				nm := name()
				s := n.Str
				as = append(as, Assign{Name: nm, Kind: model.A, Str: &s})
				out.AVar = &model.AVar{Name: nm, Min: 0, Max: -1}
				switch model.Mix64(mask^pos) % 4 {
				case 1:
					out.AVar.Min, out.AVar.Max = len(s), len(s)
				case 2:
					out.AVar.Min = len(s) / 2
				case 3:
					out.AVar.Max = len(s) + int(model.Mix64(pos)%3)
				}
			} else {
				out.Str = n.Str
				if n.AVar != nil {
					av := *n.AVar
					out.AVar = &av
				}
			}
		default:
			out.Elems = make([]model.Elem, len(n.Elems))
			for i, e := range n.Elems {
				if e.Var == "" && pick() {
					nm := name()
					ev := e
					as = append(as, Assign{Name: nm, Kind: n.Kind, Elem: &ev})
					out.Elems[i] = model.Elem{Var: nm}
				} else {
					out.Elems[i] = e
				}
			}
		}
		return out
	}
	return walk(tree, true), as
}

// itemPart strips the header line from a printed message.
func itemPart(msgString string) string {
	for i := 0; i < len(msgString); i++ {
		if msgString[i] == '\n' {
			return msgString[i+1:]
		}
	}
	return ""
}

// completeMessage applies the three producers in the order selected by order.
func completeMessage(m *ast.DataMessage, h Hdr, fill map[string]interface{}, order int) *ast.DataMessage {
	steps := [][3]int{{0, 1, 2}, {0, 2, 1}, {1, 0, 2}, {1, 2, 0}, {2, 0, 1}, {2, 1, 0}}[order%6]
	// every second order also exercises all observers of the intermediate messages between the producer
	// calls: whatever an observer computes (and might remember) must not leak into derived messages
	touch := (order/6)%2 == 1
	for _, s := range steps {
		if touch {
			touchMessage(m)
		}
		switch s {
		case 0:
			if len(fill) > 0 {
				m = m.FillVariables(fill)
			}
		case 1:
			m = m.SetWaitBit(h.Wait == 1)
		case 2:
			m = m.SetSessionIDAndSystemBytes(h.Session, h.System)
		}
	}
	return m
}

// errRefused is returned by the model when a fill must be refused.
type errRefused string

func (e errRefused) Error() string { return string(e) }

// substModel is the reference semantics of FillVariables without ellipses:
// every variable position whose name is bound is replaced by the bound value
// (or renamed when the binding is a rename), everything else stays in place.
func substModel(n *model.Node, bind map[string]Assign) (*model.Node, error) {
	if n.Bulk != nil {
		return n.Clone(), nil
	}
	out := &model.Node{Kind: n.Kind}
	switch n.Kind {
	case model.L:
		for _, c := range n.Children {
			if c.Node != nil {
				sub, err := substModel(c.Node, bind)
				if err != nil {
					return nil, err
				}
				out.Children = append(out.Children, model.Child{Node: sub})
				continue
			}
			a, ok := bind[c.Var]
			switch {
			case !ok:
				out.Children = append(out.Children, c)
			case a.Alien != "":
				return nil, errRefused("list variable bound to a value of a Go type that no item takes")
			case a.Rename != "":
				out.Children = append(out.Children, model.Child{Var: a.Rename})
			case a.Node != nil:
				out.Children = append(out.Children, model.Child{Node: a.Node.Clone()})
			default:
				return nil, errRefused("list variable bound to a non-item value")
			}
		}
	case model.A:
		if n.AVar == nil {
			out.Str = n.Str
			return out, nil
		}
		a, ok := bind[n.AVar.Name]
		if !ok {
			av := *n.AVar
			out.AVar = &av
			return out, nil
		}
		if a.Str == nil || a.Alien != "" {
			return nil, errRefused("ASCII variable bound to a non-string value")
		}
		if len(*a.Str) < n.AVar.Min || (n.AVar.Max != -1 && len(*a.Str) > n.AVar.Max) {
			return nil, errRefused("string length outside the declared bounds")
		}
		for i := 0; i < len(*a.Str); i++ {
			if (*a.Str)[i] >= 0x80 {
				return nil, errRefused("non-ASCII string")
			}
		}
		out.Str = *a.Str
	default:
		out.Elems = make([]model.Elem, len(n.Elems))
		for i, e := range n.Elems {
			if e.Var == "" {
				out.Elems[i] = e
				continue
			}
			a, ok := bind[e.Var]
			switch {
			case !ok:
				out.Elems[i] = e
			case a.Alien != "":
				return nil, errRefused("element variable bound to a value of a Go type that no item takes")
			case a.Rename != "":
				out.Elems[i] = model.Elem{Var: a.Rename}
			case a.Elem != nil && a.Kind == n.Kind:
				if !elemInDomain(n.Kind, *a.Elem) {
					return nil, errRefused("value outside the item's domain")
				}
				out.Elems[i] = *a.Elem
			default:
				return nil, errRefused("element variable bound to a value of another kind")
			}
		}
	}
	return out, nil
}

func bindMap(as []Assign) map[string]Assign {
	m := make(map[string]Assign, len(as))
	for _, a := range as {
		m[a.Name] = a
	}
	return m
}

// elemInDomain reports whether the element value is representable by the kind.
func elemInDomain(kind string, e model.Elem) bool {
	switch {
	case model.IsSigned(kind):
		lo, hi := intRangeOf(kind)
		return e.I >= lo && e.I <= hi
	case model.IsUnsigned(kind) || kind == model.B:
		return e.U <= uintMaxOf(kind)
	case kind == model.F4:
		f := math.Float64frombits(e.F)
		return !math.IsNaN(f) && !math.IsInf(f, 0) && math.Abs(f) <= math.MaxFloat32
	case kind == model.F8:
		f := math.Float64frombits(e.F)
		return !math.IsNaN(f) && !math.IsInf(f, 0)
	}
	return true
}

// touchMessage calls every observer of a message (results discarded).
func touchMessage(m *ast.DataMessage) {
	_ = m.ToBytes()
	_ = m.String()
	_ = m.Variables()
	_ = m.Header()
	_ = m.SystemBytes()
}

// touchItem calls every observer of an item (results discarded).
func touchItem(it ast.ItemNode) {
	_ = it.ToBytes()
	_ = itemString(it)
	_ = it.Variables()
	_ = it.Size()
}
