package props

import (
	"bytes"
	"fmt"
	"strings"
	"testing"

	"verifharness/model"

	"github.com/wolimst/lib-secs2-hsms-go/pkg/ast"
	"github.com/wolimst/lib-secs2-hsms-go/pkg/parser/hsms"
)

// C14 - HSMS control messages are built, classified and decoded per HSMS.

type c14Case struct {
	Ctor    string         `json:"ctor"` // raw select.req select.rsp deselect.req deselect.rsp linktest.req linktest.rsp reject.req separate.req
	Session int            `json:"session"`
	PType   int            `json:"ptype"`
	SType   int            `json:"stype"`
	Code    int            `json:"code"` // status / reason
	System  model.HexBytes `json:"system"`
	Header  model.HexBytes `json:"header,omitempty"` // ctor raw
	ReqKind string         `json:"req,omitempty"`    // for responses: kind of the message passed as the request
}

func init() { registerReplay("c14", checkC14) }

func refControl(session int, b2, b3, stype byte, system []byte) []byte {
	out := []byte{0, 0, 0, 10, byte(session >> 8), byte(session), b2, b3, 0, stype}
	return append(out, system[:4]...)
}

var c14STypes = map[string]byte{
	"select.req": 1, "select.rsp": 2, "deselect.req": 3, "deselect.rsp": 4,
	"linktest.req": 5, "linktest.rsp": 6, "reject.req": 7, "separate.req": 9,
}

// makeRequest builds a message of the given kind to be handed to a response constructor.
func makeRequest(kind string, session int, system []byte) ast.HSMSMessage {
	switch kind {
	case "select.req":
		return ast.NewHSMSMessageSelectReq(uint16(session), system)
	case "deselect.req":
		return ast.NewHSMSMessageDeselectReq(uint16(session), system)
	case "linktest.req":
		return ast.NewHSMSMessageLinktestReq(system)
	case "separate.req":
		return ast.NewHSMSMessageSeparateReq(uint16(session), system)
	case "reject.req":
		return ast.NewHSMSMessageRejectReq(uint16(session), 0, 3, system, 1)
	case "select.rsp":
		return ast.NewHSMSMessageSelectRsp(ast.NewHSMSMessageSelectReq(uint16(session), system), 0)
	case "deselect.rsp":
		return ast.NewHSMSMessageDeselectRsp(ast.NewHSMSMessageDeselectReq(uint16(session), system), 0)
	case "linktest.rsp":
		return ast.NewHSMSMessageLinktestRsp(ast.NewHSMSMessageLinktestReq(system))
	case "raw:select.req", "raw:deselect.req", "raw:linktest.req", "decoded:select.req", "decoded:deselect.req", "decoded:linktest.req":
		// a request that did not come from a request constructor: its other header bytes are arbitrary
		st := map[string]byte{"select.req": 1, "deselect.req": 3, "linktest.req": 5}[kind[strings.Index(kind, ":")+1:]]
		s0, s1 := byte(session>>8), byte(session)
		if st == 5 {
			s0, s1 = 0xFF, 0xFF
		}
		hdr := []byte{s0, s1, 0x80 | system[0] | 1, system[1] | 2, 0, st, system[0], system[1], system[2], system[3]}
		if strings.HasPrefix(kind, "raw:") {
			return ast.NewHSMSControlMessage(hdr)
		}
		m, ok := hsms.Parse(append([]byte{0, 0, 0, 10}, hdr...))
		if !ok {
			panic("harness: cannot decode a control message")
		}
		return m
	case "undefined":
		return ast.NewHSMSControlMessage([]byte{byte(session >> 8), byte(session), 0, 0, 0, 8, system[0], system[1], system[2], system[3]})
	case "ptype1:select.req", "ptype1:deselect.req", "ptype1:linktest.req", "ptype255:select.req":
		st := map[string]byte{"select.req": 1, "deselect.req": 3, "linktest.req": 5}[kind[strings.Index(kind, ":")+1:]]
		pt := byte(1)
		if strings.HasPrefix(kind, "ptype255") {
			pt = 255
		}
		return ast.NewHSMSControlMessage([]byte{byte(session >> 8), byte(session), 0, 0, pt, st, system[0], system[1], system[2], system[3]})
	case "undefined-ptype":
		return ast.NewHSMSControlMessage([]byte{byte(session >> 8), byte(session), 0, 0, 1, 1, system[0], system[1], system[2], system[3]})
	case "data message":
		return ast.NewHSMSDataMessage("", 1, 1, 1, "H->E", ast.NewEmptyItemNode(), session, system)
	}
	panic("makeRequest " + kind)
}

func checkC14(c c14Case) (ci caseInfo, err error) {
	if kind, long := strings.CutPrefix(c.Ctor, "longsys:"); long {
		// more than four system bytes (the tail of a received frame, say): the documentation asks for four, so a refusal
		// is fine - but whatever a constructor returns is a 14-byte message with the first four of them
		ci.label("ctor:longer-system-bytes")
		ci.Nontrivial = true
		sys := append([]byte(nil), c.System...)
		var msg ast.HSMSMessage
		if p, _ := try(func() {
			if kind == "reject.req" {
				msg = ast.NewHSMSMessageRejectReq(uint16(c.Session), byte(c.PType), byte(c.SType), sys, byte(c.Code))
			} else {
				msg = makeRequest(kind, c.Session, sys)
			}
		}); p {
			ci.label("longer-system-bytes:refused")
			return ci, nil
		}
		b := msg.ToBytes()
		if len(b) != 14 || !bytes.Equal(b[:4], []byte{0, 0, 0, 10}) || !bytes.Equal(b[10:14], sys[:4]) || msg.Type() != kind {
			return ci, fmt.Errorf("%s built with %d system bytes %x: Type() %q, bytes %x (want 14 bytes, length 10, system bytes %x)", kind, len(sys), sys, msg.Type(), b, sys[:4])
		}
		if back, ok := hsms.Parse(b); !ok || !bytes.Equal(back.ToBytes(), b) {
			return ci, fmt.Errorf("%s built with %d system bytes does not decode back (ok=%v)", kind, len(sys), ok)
		}
		return ci, nil
	}
	ci.label("ctor:" + c.Ctor)
	ci.Nontrivial = c.Session != 0 || c.Code != 0 || c.Ctor == "raw"
	sys := []byte(c.System)
	var msg ast.HSMSMessage
	var want []byte
	wantType := c.Ctor
	switch c.Ctor {
	case "raw":
		hdr := append([]byte(nil), c.Header...)
		keep := append([]byte(nil), hdr...)
		msg = ast.NewHSMSControlMessage(hdr)
		for i := range hdr { // the constructor must have copied its argument
			hdr[i] ^= 0xFF
		}
		want = append([]byte{0, 0, 0, 10}, keep...)
		wantType = model.ControlTypeName(keep[4], keep[5])
	case "select.req":
		msg = ast.NewHSMSMessageSelectReq(uint16(c.Session), sys)
		want = refControl(c.Session, 0, 0, 1, sys)
	case "deselect.req":
		msg = ast.NewHSMSMessageDeselectReq(uint16(c.Session), sys)
		want = refControl(c.Session, 0, 0, 3, sys)
	case "separate.req":
		msg = ast.NewHSMSMessageSeparateReq(uint16(c.Session), sys)
		want = refControl(c.Session, 0, 0, 9, sys)
	case "linktest.req":
		msg = ast.NewHSMSMessageLinktestReq(sys)
		want = refControl(0xFFFF, 0, 0, 5, sys)
	case "reject.req":
		msg = ast.NewHSMSMessageRejectReq(uint16(c.Session), byte(c.PType), byte(c.SType), sys, byte(c.Code))
		b2 := byte(c.SType)
		if c.Code == 2 {
			b2 = byte(c.PType)
		}
		want = refControl(c.Session, b2, byte(c.Code), 7, sys)
	case "select.rsp", "deselect.rsp", "linktest.rsp":
		needs := map[string]string{"select.rsp": "select.req", "deselect.rsp": "deselect.req", "linktest.rsp": "linktest.req"}[c.Ctor]
		req := makeRequest(c.ReqKind, c.Session, sys)
		reqBefore := append([]byte(nil), req.ToBytes()...)
		panicked, _ := try(func() {
			switch c.Ctor {
			case "select.rsp":
				msg = ast.NewHSMSMessageSelectRsp(req, byte(c.Code))
			case "deselect.rsp":
				msg = ast.NewHSMSMessageDeselectRsp(req, byte(c.Code))
			default:
				msg = ast.NewHSMSMessageLinktestRsp(req)
			}
		})
		ci.label("rsp-from:" + c.ReqKind)
		if k := c.ReqKind; strings.Contains(k, ":") && !strings.HasPrefix(k, "ptype") {
			k = k[strings.Index(k, ":")+1:]
			if k == needs {
				needs = c.ReqKind
			}
		}
		if c.ReqKind != needs {
			if !panicked {
				return ci, fmt.Errorf("%s accepted a %s as its request (result %x)", c.Ctor, c.ReqKind, msg.ToBytes())
			}
			return ci, nil
		}
		if panicked {
			return ci, fmt.Errorf("%s refused a genuine %s", c.Ctor, needs)
		}
		if !bytes.Equal(req.ToBytes(), reqBefore) {
			return ci, fmt.Errorf("%s changed the request it answers", c.Ctor)
		}
		sess, code := c.Session, byte(c.Code)
		if c.Ctor == "linktest.rsp" {
			sess, code = 0xFFFF, 0
		}
		want = refControl(sess, 0, code, c14STypes[c.Ctor], sys)
	default:
		return ci, fmt.Errorf("harness: unknown ctor %q", c.Ctor)
	}

	got := msg.ToBytes()
	// another control message is serialised while the first result is still held: results must not share storage
	_ = ast.NewHSMSMessageLinktestReq([]byte{0xDE, 0xAD, 0xBE, 0xEF}).ToBytes()
	_ = ast.NewHSMSMessageSeparateReq(0x5A5A, []byte{1, 2, 3, 4}).ToBytes()
	if !bytes.Equal(got, want) {
		return ci, fmt.Errorf("%s(session=%d ptype=%d stype=%d code=%d system=%x): bytes %x, want %x", c.Ctor, c.Session, c.PType, c.SType, c.Code, sys, got, want)
	}
	if msg.Type() != wantType {
		return ci, fmt.Errorf("%s: Type() = %q, want %q (header %x)", c.Ctor, msg.Type(), wantType, want[4:])
	}
	// decoding: equal message iff PType 0 and SType defined; otherwise the decoder must follow the reference
	dec, ok := hsms.Parse(append([]byte(nil), got...))
	ptype, stype := want[8], want[9]
	switch {
	case ptype == 0 && model.DefinedControlSType(stype):
		if !ok {
			return ci, fmt.Errorf("hsms.Parse rejects the %s message %x", wantType, got)
		}
		if dec.Type() != wantType || !bytes.Equal(dec.ToBytes(), got) {
			return ci, fmt.Errorf("decoded %s message differs: type %q bytes %x, want %q %x", wantType, dec.Type(), dec.ToBytes(), wantType, got)
		}
	default:
		ref := model.RefDecode(got)
		if ref.OK != ok {
			return ci, fmt.Errorf("header %x (PType %d, SType %d): decoder ok=%v, reference ok=%v (%s)", got[4:], ptype, stype, ok, ref.OK, ref.Reason)
		}
	}
	return ci, nil
}

func TestC14(t *testing.T) {
	shard, nshards := shardInfo()
	seq := 0
	run := func(c c14Case) {
		seq++
		if seq%nshards == shard {
			runCase[c14Case](t, "C14", "c14", checkC14, c)
		}
	}
	seed := verifSeed()
	rnd := func() uint64 { seed = model.Mix64(seed); return seed }
	rsys := func() model.HexBytes {
		r := rnd()
		switch r % 5 {
		case 0:
			return model.HexBytes{0, 0, 0, 0}
		case 1:
			return model.HexBytes{255, 255, 255, 255}
		}
		return model.HexBytes{byte(r >> 8), byte(r >> 16), byte(r >> 24), byte(r >> 32)}
	}
	// all 65536 (PType, SType) pairs through the raw constructor, other header bytes pseudo-random
	for p := 0; p < 256; p++ {
		for s := 0; s < 256; s++ {
			r := rnd()
			hdr := model.HexBytes{byte(r), byte(r >> 8), byte(r >> 16), byte(r >> 24), byte(p), byte(s), byte(r >> 32), byte(r >> 40), byte(r >> 48), byte(r >> 56)}
			if p == 0 && s == 0 && hdr[2]&0x80 != 0 && hdr[3]%2 == 0 {
				hdr[3] |= 1 // (0,0) decodes as a data message; keep its header valid so the outcome is defined
			}
			run(c14Case{Ctor: "raw", PType: p, SType: s, Header: hdr, System: model.HexBytes(hdr[6:10])})
		}
	}
	// all session ids through each request constructor
	for sess := 0; sess < 65536; sess++ {
		for _, ctor := range []string{"select.req", "deselect.req", "separate.req"} {
			run(c14Case{Ctor: ctor, Session: sess, System: rsys()})
		}
		r := rnd()
		run(c14Case{Ctor: "reject.req", Session: sess, PType: int(r & 0xFF), SType: int(r >> 8 & 0xFF), Code: int(r >> 16 & 0xFF), System: rsys()})
		run(c14Case{Ctor: "select.rsp", ReqKind: "select.req", Session: sess, Code: int(r >> 24 & 0xFF), System: rsys()})
		run(c14Case{Ctor: "deselect.rsp", ReqKind: "deselect.req", Session: sess, Code: int(r >> 32 & 0xFF), System: rsys()})
	}
	// all status codes, all request kinds for every response constructor
	kinds := []string{"ptype1:select.req", "ptype1:deselect.req", "ptype1:linktest.req", "ptype255:select.req", "raw:select.req", "raw:deselect.req", "raw:linktest.req", "decoded:select.req", "decoded:deselect.req", "decoded:linktest.req", "select.req", "select.rsp", "deselect.req", "deselect.rsp", "linktest.req", "linktest.rsp", "reject.req", "separate.req", "undefined", "undefined-ptype", "data message"}
	for code := 0; code < 256; code++ {
		for _, ctor := range []string{"select.rsp", "deselect.rsp", "linktest.rsp"} {
			for _, k := range kinds {
				run(c14Case{Ctor: ctor, ReqKind: k, Session: int(rnd() & 0xFFFF), Code: code, System: rsys()})
			}
		}
		run(c14Case{Ctor: "linktest.req", Code: 0, Session: 0xFFFF, System: rsys()})
	}
	// request constructors handed more than four system bytes
	for i := 0; i < 400; i++ {
		r := rnd()
		n := 5 + int(r>>8)%4
		sys := make(model.HexBytes, n)
		for j := range sys {
			sys[j] = byte(r >> uint(8*(j%8)))
		}
		kind := []string{"select.req", "deselect.req", "linktest.req", "separate.req", "reject.req"}[i%5]
		sess := int(r>>40) & 0xFFFF
		if kind == "linktest.req" {
			sess = 0xFFFF
		}
		run(c14Case{Ctor: "longsys:" + kind, Session: sess, PType: int(r>>16) & 0xFF, SType: int(r>>24) & 0xFF, Code: int(r>>32) & 0xFF, System: sys})
	}
	// boundary session ids crossed with every status / reason code (the sweeps above pair each code with one random session)
	for _, sess := range []int{0, 1, 10, 255, 256, 0x0A00, 0x7FFF, 0x8000, 0xFFFE, 0xFFFF} {
		for code := 0; code < 256; code++ {
			run(c14Case{Ctor: "select.rsp", ReqKind: "select.req", Session: sess, Code: code, System: rsys()})
			run(c14Case{Ctor: "deselect.rsp", ReqKind: "decoded:deselect.req", Session: sess, Code: code, System: rsys()})
			for _, b2 := range []int{0, 1, 10, 255} {
				run(c14Case{Ctor: "reject.req", Session: sess, PType: b2, SType: b2, Code: code, System: rsys()})
			}
		}
	}
	// raw headers whose first four bytes take every combination of a few telling values (zero, ten = the length of a
	// control message, small, top bit, all ones), for every defined SType
	tell := []byte{0x00, 0x0A, 0x01, 0x80, 0xFF}
	for _, st := range []int{1, 2, 3, 4, 5, 6, 7, 9} {
		for i := 0; i < 625; i++ {
			r := rnd()
			hdr := model.HexBytes{tell[i%5], tell[i/5%5], tell[i/25%5], tell[i/125%5], 0, byte(st), byte(r), byte(r >> 8), byte(r >> 16), byte(r >> 24)}
			run(c14Case{Ctor: "raw", PType: 0, SType: st, Header: hdr, System: model.HexBytes(hdr[6:10])})
		}
	}
	// reject.req over (ptype, stype, reason): all 2^24 in thorough mode, boundary x boundary + random otherwise
	if isThorough() {
		for p := 0; p < 256; p++ {
			for s := 0; s < 256; s++ {
				for reason := 0; reason < 256; reason++ {
					run(c14Case{Ctor: "reject.req", Session: (p*7 + s*13 + reason) & 0xFFFF, PType: p, SType: s, Code: reason, System: model.HexBytes{byte(p), byte(s), byte(reason), 1}})
				}
			}
		}
		stats.setExtra("reject_req", "exhaustive over all 2^24 (ptype, stype, reason) triples")
	} else {
		bs := []int{0, 1, 2, 3, 4, 5, 7, 9, 127, 128, 254, 255}
		for _, p := range bs {
			for _, s := range bs {
				for reason := 0; reason < 256; reason++ {
					run(c14Case{Ctor: "reject.req", Session: int(rnd() & 0xFFFF), PType: p, SType: s, Code: reason, System: rsys()})
				}
			}
		}
		for i := 0; i < 20000; i++ {
			r := rnd()
			run(c14Case{Ctor: "reject.req", Session: int(r >> 24 & 0xFFFF), PType: int(r & 0xFF), SType: int(r >> 8 & 0xFF), Code: int(r >> 16 & 0xFF), System: rsys()})
		}
	}
}
