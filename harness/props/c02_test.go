package props

import (
	"bytes"
	"fmt"
	"math"
	"sort"
	"testing"

	"verifharness/model"

	"github.com/wolimst/lib-secs2-hsms-go/pkg/ast"
	"pgregory.net/rapid"
)

// C02 - wire format conformance: ToBytes() == independent reference encoder.

type c02Case struct {
	Tree    *model.Node `json:"tree"`
	Hdr     *Hdr        `json:"hdr,omitempty"` // nil: item-level case
	Variant int         `json:"variant"`
	Route   int         `json:"route"` // message cases: 0 NewDataMessage+Set..., 1 NewHSMSDataMessage (complete only)
}

func init() { registerReplay("c02", checkC02) }

// buildMessage constructs a data message for a header model through the public API.
func buildMessage(h Hdr, item ast.ItemNode, route int) *ast.DataMessage {
	// the caller's system-bytes slice is overwritten right after the call: the message must hold its own copy
	sys := append([]byte(nil), h.System...)
	defer func() {
		for i := range sys {
			sys[i] ^= 0xFF
		}
	}()
	if route == 1 && h.Wait != 2 && h.Session != -1 && len(item.Variables()) == 0 {
		return ast.NewHSMSDataMessage(h.Name, h.Stream, h.Function, h.Wait, h.Dir, item, h.Session, sys)
	}
	m := ast.NewDataMessage(h.Name, h.Stream, h.Function, h.Wait, h.Dir, item)
	if h.Session != -1 {
		m = m.SetSessionIDAndSystemBytes(h.Session, sys)
	}
	return m
}

func modelMsg(h Hdr, tree *model.Node) *model.Msg {
	m := &model.Msg{Session: h.Session, Stream: h.Stream, Function: h.Function, Wait: h.Wait == 1, Item: tree}
	copy(m.System[:], h.System)
	return m
}

func checkC02(c c02Case) (ci caseInfo, err error) {
	hasVars := c.Tree != nil && c.Tree.HasVariables()
	sh := shapeOf(c.Tree)
	item := buildItemOrEmpty(c.Tree, c.Variant)

	if c.Hdr == nil {
		got := item.ToBytes()
		if hasVars {
			ci.Nontrivial = true
			ci.label("item:with-variables")
			if len(got) != 0 {
				return ci, fmt.Errorf("item with variables %v encodes to %d bytes (%s), want empty", c.Tree.Variables(), len(got), hexPrefix(got, 24))
			}
			return ci, nil
		}
		want, _, rerr := model.RefEncodeItem(c.Tree, nil)
		if rerr != nil {
			return ci, fmt.Errorf("harness: reference encoder failed: %v", rerr)
		}
		ci.Nontrivial = sh.Elems > 0
		ci.label("item:lenbytes=%d", sh.MaxLenBytes)
		for k := range sh.Kinds {
			ci.label("kind:" + k)
		}
		if !bytes.Equal(got, want) {
			return ci, fmt.Errorf("item %s: ToBytes differs from the SEMI E5 reference: %s", c.Tree.Brief(), firstDiff(got, want))
		}
		return ci, nil
	}

	h := *c.Hdr
	msg := buildMessage(h, item, c.Route)
	got := msg.ToBytes()
	incomplete := ""
	switch {
	case h.Wait == 2:
		incomplete = "optional-wait"
	case h.Session == -1:
		incomplete = "no-session"
	case hasVars:
		incomplete = "variables"
	}
	if incomplete != "" {
		ci.Nontrivial = true
		ci.label("msg:incomplete:" + incomplete)
		if len(got) != 0 {
			return ci, fmt.Errorf("incomplete message (%s) %q encodes to %d bytes (%s), want the empty byte string", incomplete, msg.Header(), len(got), hexPrefix(got, 24))
		}
		// history: the same message, already encoded once while incomplete, is now completed and must encode
		// exactly like the reference (nothing remembered from the earlier, empty, encoding)
		if c.Tree == nil || len(ellipsisNames(c.Tree.Variables())) == 0 {
			var full *model.Node
			fill := map[string]interface{}{}
			if c.Tree != nil {
				binds := singleFills(c.Tree)
				fill = assignMap(binds, c.Variant)
				full, _ = substModel(c.Tree, bindMap(binds))
			}
			hc := h
			hc.Wait = boolToWait(h.Wait == 1)
			if hc.Session == -1 {
				hc.Session = 513
			}
			done := completeMessage(msg, hc, fill, c.Variant)
			want, _, rerr := model.RefEncodeMsg(modelMsg(hc, full), nil)
			if rerr != nil {
				return ci, fmt.Errorf("harness: %v", rerr)
			}
			if got := done.ToBytes(); !bytes.Equal(got, want) {
				return ci, fmt.Errorf("message %q completed after having been encoded while incomplete (%s): %s", msg.Header(), incomplete, firstDiff(got, want))
			}
			ci.label("msg:completed-after-incomplete-encoding")
		} else {
			// templates with ellipses: the ellipses are filled ONE AT A TIME (a partial fill each, in an order that varies,
			// with counts 0..2), then the variables the expansions generated, then the header; the bytes must be those of
			// the reference expansion
			cur, ref := msg, c.Tree
			hasDup := func(vs []string) bool {
				seen := map[string]bool{}
				for _, v := range vs {
					if seen[v] {
						return true
					}
					seen[v] = true
				}
				return false
			}
			for step := 0; step < 30; step++ {
				mes, les := ellipsisNames(ref.Variables()), ellipsisNames(cur.Variables())
				if len(mes) == 0 && len(les) == 0 {
					break
				}
				if len(mes) != len(les) {
					return ci, fmt.Errorf("after %d partial ellipsis fills the message lists the ellipses %q, the reference expansion %q", step, les, mes)
				}
				r := model.Mix64(uint64(c.Variant)*977 + uint64(step)*0x9E3779B9 + uint64(len(mes)))
				k := len(mes) - 1 // the last one first, mostly: the others stay unfilled in front of it
				if r%3 == 0 {
					k = int(r>>8) % len(mes)
				}
				n := int(r>>20) % 3
				next, _ := model.RefExpand(ref, map[string]int{mes[k]: n})
				if hasDup(next.Variables()) {
					ci.label("msg:staged-ellipsis-fill:stopped-at-duplicate-names")
					return ci, nil
				}
				before := cur
				if p, pmsg := try(func() { cur = before.FillVariables(map[string]interface{}{les[k]: n}) }); p {
					return ci, fmt.Errorf("filling ellipsis %q alone with %d (step %d of a staged completion) is refused: %s", les[k], n, step+1, pmsg)
				}
				ref = next
			}
			if len(ellipsisNames(ref.Variables())) == 0 {
				binds := singleFills(ref)
				full, serr := substModel(ref, bindMap(binds))
				hc := h
				hc.Wait = boolToWait(h.Wait == 1)
				if hc.Session == -1 {
					hc.Session = 513
				}
				if serr == nil {
					var done *ast.DataMessage
					if p, pmsg := try(func() { done = completeMessage(cur, hc, assignMap(binds, c.Variant), c.Variant) }); p {
						return ci, fmt.Errorf("completing the message after its ellipses were filled one at a time is refused: %s (variables %q)", pmsg, cur.Variables())
					}
					want, _, rerr := model.RefEncodeMsg(modelMsg(hc, full), nil)
					if rerr != nil {
						return ci, fmt.Errorf("harness: %v", rerr)
					}
					if got := done.ToBytes(); !bytes.Equal(got, want) {
						return ci, fmt.Errorf("message %q completed after its ellipses were filled one at a time: %s (variables left: %q)", msg.Header(), firstDiff(got, want), done.Variables())
					}
					ci.label("msg:completed-after-staged-ellipsis-fills")
				}
			}
		}
		return ci, nil
	}
	want, _, rerr := model.RefEncodeMsg(modelMsg(h, c.Tree), nil)
	if rerr != nil {
		return ci, fmt.Errorf("harness: reference encoder failed: %v", rerr)
	}
	ci.Nontrivial = sh.Elems > 0 || h.Session > 0
	ci.label("msg:complete")
	ci.label("msg:lenbytes=%d", sh.MaxLenBytes)
	if !bytes.Equal(got, want) {
		return ci, fmt.Errorf("message %q: ToBytes differs from the E37 reference: %s", msg.Header(), firstDiff(got, want))
	}
	return ci, nil
}

func genC02(t *rapid.T) c02Case {
	c := c02Case{Variant: rapid.IntRange(0, 11).Draw(t, "variant"), Route: rapid.IntRange(0, 1).Draw(t, "route")}
	class := rapid.IntRange(0, 9).Draw(t, "class")
	withVars := class == 0 || class == 1
	nm := newNamer(false, true)
	c.Tree = genTree(t, treeOpts{Vars: withVars, Ellipsis: withVars, Bulk: !withVars, Suffix: true}, nm)
	if withVars {
		numberEllipses(c.Tree)
	}
	if class%2 == 1 {
		h := genHdr(t, class >= 5)
		c.Hdr = &h
		if !withVars && rapid.IntRange(0, 15).Draw(t, "emptyText") == 15 {
			c.Tree = nil
		}
	}
	return c
}

func TestC02(t *testing.T) {
	rapidProp(t, "C02", "c02", genC02, checkC02)
}

// ---------------------------------------------------------------------------
// enumerations

type c02EnumCase struct {
	Kind  string   `json:"kind"`
	What  string   `json:"what"`
	Count int      `json:"count,omitempty"`
	Bits  []uint64 `json:"bits,omitempty"` // element bit patterns (floats: IEEE bits of the width)
}

func init() { registerReplay("c02enum", checkC02Enum) }

func nodeFromBits(kind string, bits []uint64) *model.Node {
	n := &model.Node{Kind: kind, Elems: make([]model.Elem, len(bits))}
	for i, b := range bits {
		switch {
		case kind == model.BOOLEAN:
			n.Elems[i] = model.Elem{T: b&1 == 1}
		case kind == model.I1:
			n.Elems[i] = model.Elem{I: int64(int8(b))}
		case kind == model.I2:
			n.Elems[i] = model.Elem{I: int64(int16(b))}
		case kind == model.I4:
			n.Elems[i] = model.Elem{I: int64(int32(b))}
		case kind == model.I8:
			n.Elems[i] = model.Elem{I: int64(b)}
		case kind == model.F4:
			n.Elems[i] = model.Elem{F: math.Float64bits(float64(math.Float32frombits(uint32(b))))}
		case kind == model.F8:
			n.Elems[i] = model.Elem{F: b}
		default:
			n.Elems[i] = model.Elem{U: b & uintMaxOf(kind)}
		}
	}
	return n
}

// refBytesFromBits writes the expected encoding directly from the bit
// patterns (big-endian, width bytes each) - independent of model.RefEncodeItem's
// value conversion.
func refBytesFromBits(kind string, bits []uint64) []byte {
	w := model.Width(kind)
	n := len(bits) * w
	nlb := model.MinLengthBytes(n)
	out := make([]byte, 0, 1+nlb+n)
	out = append(out, byte(model.FormatCode(kind)<<2|nlb))
	for i := nlb - 1; i >= 0; i-- {
		out = append(out, byte(n>>(8*uint(i))))
	}
	for _, b := range bits {
		if kind == model.BOOLEAN {
			b &= 1
		}
		for i := w - 1; i >= 0; i-- {
			out = append(out, byte(b>>(8*uint(i))))
		}
	}
	return out
}

func nonFinite(kind string, b uint64) bool {
	if kind == model.F4 {
		return uint32(b)&0x7F800000 == 0x7F800000
	}
	if kind == model.F8 {
		return b&0x7FF0000000000000 == 0x7FF0000000000000
	}
	return false
}

func checkC02Enum(c c02EnumCase) (ci caseInfo, err error) {
	ci.Nontrivial = len(c.Bits) > 0
	ci.label("enum:" + c.What + ":" + c.Kind)
	if len(c.Bits) > 8 {
		ci.Key = fmt.Sprintf("%s/%s/%d/%x/%x", c.Kind, c.What, len(c.Bits), c.Bits[0], c.Bits[len(c.Bits)-1])
	}
	if len(c.Bits) == 1 && nonFinite(c.Kind, c.Bits[0]) {
		// NaN / Inf patterns must be refused by the factory
		var v interface{}
		if c.Kind == model.F4 {
			v = math.Float32frombits(uint32(c.Bits[0]))
		} else {
			v = math.Float64frombits(c.Bits[0])
		}
		p, _ := try(func() { ast.NewFloatNode(model.Width(c.Kind), v) })
		if !p {
			return ci, fmt.Errorf("%s accepted the non-finite bit pattern %#x", c.Kind, c.Bits[0])
		}
		return ci, nil
	}
	node := nodeFromBits(c.Kind, c.Bits)
	item := buildItem(node, 1) // variant 1: narrowest Go types, float32 for F4
	got := item.ToBytes()
	want := refBytesFromBits(c.Kind, c.Bits)
	if !bytes.Equal(got, want) {
		return ci, fmt.Errorf("%s x %d (%s): ToBytes differs from reference: %s", c.Kind, len(c.Bits), c.What, firstDiff(got, want))
	}
	return ci, nil
}

func TestC02Enum(t *testing.T) {
	shard, nshards := shardInfo()
	run := func(c c02EnumCase) { runCase[c02EnumCase](t, "C02", "c02enum", checkC02Enum, c) }
	seq := 0
	mine := func() bool { seq++; return seq%nshards == shard }

	// every value of the 1- and 2-byte formats: singly and all in one item
	for _, kind := range []string{model.I1, model.U1, model.B, model.I2, model.U2} {
		w := model.Width(kind)
		total := 1 << (8 * uint(w))
		if mine() {
			all := make([]uint64, total)
			for v := range all {
				all[v] = uint64(v)
			}
			run(c02EnumCase{Kind: kind, What: "all-values-one-item", Bits: all})
		}
		for v := 0; v < total; v++ {
			if v%nshards == shard {
				run(c02EnumCase{Kind: kind, What: "single", Bits: []uint64{uint64(v)}})
			}
		}
	}
	if mine() {
		run(c02EnumCase{Kind: model.BOOLEAN, What: "single", Bits: []uint64{0}})
		run(c02EnumCase{Kind: model.BOOLEAN, What: "single", Bits: []uint64{1}})
	}
	// every element count 0..300 and the border counts, every array format
	for _, kind := range model.ArrayKinds {
		counts := map[int]bool{}
		for n := 0; n <= 300; n++ {
			counts[n] = true
		}
		for _, n := range bulkCounts(kind, false) {
			counts[n] = true
		}
		sortedCounts := make([]int, 0, len(counts))
		for n := range counts {
			sortedCounts = append(sortedCounts, n)
		}
		sort.Ints(sortedCounts)
		for _, n := range sortedCounts {
			if !mine() {
				continue
			}
			st := uint64(n)*1000003 + uint64(model.FormatCode(kind))
			bits := make([]uint64, n)
			for i := range bits {
				st = model.Mix64(st)
				bits[i] = st
				w := model.Width(kind)
				if w < 8 {
					bits[i] &= 1<<(8*uint(w)) - 1
				}
				if nonFinite(kind, bits[i]) {
					if kind == model.F4 {
						bits[i] &^= 0x00800000
					} else {
						bits[i] &^= 0x0010000000000000
					}
				}
			}
			run(c02EnumCase{Kind: kind, What: "count", Count: n, Bits: bits})
		}
	}
	// wide formats: boundary values singly
	for _, kind := range []string{model.I4, model.U4, model.I8, model.U8, model.F8} {
		w := uint(model.Width(kind)) * 8
		var bs []uint64
		for _, k := range []uint{0, 1, 7, 8, 15, 16, 31, 32, 47, 48, 62, 63} {
			if k < w {
				bs = append(bs, 1<<k, 1<<k-1, ^uint64(1<<k), 1<<k+1)
			}
		}
		bs = append(bs, 0, ^uint64(0), 0x0102030405060708, 0x8070605040302010, 0xFFEEDDCCBBAA9988)
		for _, b := range bs {
			if !mine() {
				continue
			}
			if w < 64 {
				b &= 1<<w - 1
			}
			run(c02EnumCase{Kind: kind, What: "boundary", Bits: []uint64{b}})
		}
	}
	f4Sweep(t, shard, nshards, run)
}

// f4Sweep covers F4 bit patterns: all 2^32 in thorough mode, a stratified 2^20
// (every exponent x boundary mantissas + a strided remainder) in quick mode.
func f4Sweep(t *testing.T, shard, nshards int, run func(c02EnumCase)) {
	const batch = 4096
	doBatch := func(start uint64, stride uint64) {
		bits := make([]uint64, 0, batch)
		for i := uint64(0); i < batch; i++ {
			b := start + i*stride
			if b > math.MaxUint32 {
				break
			}
			if nonFinite(model.F4, b) {
				run(c02EnumCase{Kind: model.F4, What: "f4-nonfinite", Bits: []uint64{b}})
				continue
			}
			bits = append(bits, b)
		}
		if len(bits) > 0 {
			run(c02EnumCase{Kind: model.F4, What: "f4-batch", Bits: bits})
		}
	}
	if isThorough() {
		nb := uint64(1<<32) / batch
		for bi := uint64(0); bi < nb; bi++ {
			if int(bi%uint64(nshards)) == shard {
				doBatch(bi*batch, 1)
			}
		}
		stats.setExtra("f4_sweep", "all 2^32 bit patterns (exhaustive)")
		return
	}
	// quick: every sign x exponent with boundary mantissas, plus a stride
	k := 0
	for se := uint64(0); se < 512; se++ {
		for _, m := range []uint64{0, 1, 2, 0x3FFFFF, 0x400000, 0x400001, 0x7FFFFE, 0x7FFFFF, 0x2AAAAA, 0x555555} {
			k++
			if k%nshards != shard {
				continue
			}
			b := se<<23 | m
			if nonFinite(model.F4, b) {
				run(c02EnumCase{Kind: model.F4, What: "f4-nonfinite", Bits: []uint64{b}})
			} else {
				run(c02EnumCase{Kind: model.F4, What: "f4-single", Bits: []uint64{b}})
			}
		}
	}
	seed := verifSeed()
	for bi := uint64(0); bi < 256; bi++ {
		if int(bi%uint64(nshards)) != shard {
			continue
		}
		start := model.Mix64(seed+bi) % (1 << 32)
		doBatch(start, 4099) // odd stride, wraps are cut at 2^32
	}
	stats.setExtra("f4_sweep", "stratified: 512 sign/exponent x 10 mantissas + 256 strided batches of 4096")
}
