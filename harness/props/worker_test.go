package props

import (
	"bufio"
	"bytes"
	"encoding/binary"
	"encoding/json"
	"fmt"
	"io"
	"os"
	"os/exec"
	"runtime"
	"runtime/debug"
	"sync"
	"syscall"
	"time"

	"github.com/wolimst/lib-secs2-hsms-go/pkg/parser/hsms"
	"github.com/wolimst/lib-secs2-hsms-go/pkg/parser/sml"
)

// Isolated worker (DESIGN 3.5): the test binary re-executed with
// VERIF_WORKER=sml|hsms. It limits its own address space, reads
// length-prefixed inputs from stdin and answers one JSON line per input.

const workerAddressSpace = 4 << 30 // 4 GiB

type workerReply struct {
	Panic    string   `json:"panic,omitempty"` // a panic escaped the parser
	OK       bool     `json:"ok"`              // hsms: ok flag
	Type     string   `json:"type,omitempty"`  // hsms: message type
	Msgs     int      `json:"msgs"`
	SF       [][2]int `json:"sf,omitempty"` // sml: stream/function of each message
	Errors   []string `json:"errors,omitempty"`
	Warnings []string `json:"warnings,omitempty"`
	Alloc    uint64   `json:"alloc"` // TotalAlloc delta around the call
	Micros   int64    `json:"us"`
}

func workerMain(mode string) {
	lim := &syscall.Rlimit{Cur: workerAddressSpace, Max: workerAddressSpace}
	if err := syscall.Setrlimit(syscall.RLIMIT_AS, lim); err != nil {
		fmt.Fprintln(os.Stderr, "worker: setrlimit:", err)
		os.Exit(3)
	}
	debug.SetGCPercent(100)
	// a worker stuck in a call that never returns (only possible with a broken library) must not outlive the test
	// process that started it: leave as soon as the parent is gone
	parent := os.Getppid()
	go func() {
		for {
			time.Sleep(2 * time.Second)
			if os.Getppid() != parent {
				os.Exit(4)
			}
		}
	}()
	if v := os.Getenv("VERIF_MAXSTACK"); v != "" {
		// used only by reproductions of known findings: a smaller goroutine stack limit shows the same
		// unbounded recursion with a proportionally smaller input
		var n int
		if _, err := fmt.Sscan(v, &n); err == nil && n > 0 {
			debug.SetMaxStack(n)
		}
	}
	in := bufio.NewReaderSize(os.Stdin, 1<<20)
	out := bufio.NewWriter(os.Stdout)
	for {
		var lenb [4]byte
		if _, err := io.ReadFull(in, lenb[:]); err != nil {
			os.Exit(0)
		}
		buf := make([]byte, binary.BigEndian.Uint32(lenb[:]))
		if _, err := io.ReadFull(in, buf); err != nil {
			os.Exit(0)
		}
		var rep workerReply
		var ms0, ms1 runtime.MemStats
		runtime.ReadMemStats(&ms0)
		start := time.Now()
		func() {
			defer func() {
				if r := recover(); r != nil {
					rep.Panic = fmt.Sprint(r)
				}
			}()
			switch mode {
			case "sml":
				msgs, errs, warns := sml.Parse(string(buf))
				rep.Msgs = len(msgs)
				for _, m := range msgs {
					rep.SF = append(rep.SF, [2]int{m.StreamCode(), m.FunctionCode()})
				}
				rep.Errors, rep.Warnings = errs, warns
			case "hsms":
				msg, ok := hsms.Parse(buf)
				rep.OK = ok
				if ok && msg != nil {
					rep.Type = msg.Type()
				}
			}
		}()
		rep.Micros = time.Since(start).Microseconds()
		runtime.ReadMemStats(&ms1)
		rep.Alloc = ms1.TotalAlloc - ms0.TotalAlloc
		raw, _ := json.Marshal(rep)
		out.Write(raw)
		out.WriteByte('\n')
		out.Flush()
	}
}

// ---------------------------------------------------------------------------
// parent side

type workerProc struct {
	mode   string
	cmd    *exec.Cmd
	stdin  io.WriteCloser
	stdout *bufio.Reader
	stderr *bytes.Buffer
	mu     sync.Mutex
}

type workerOutcome struct {
	Reply    *workerReply
	Died     bool   // process ended while handling this input
	TimedOut bool   // watchdog expired (process killed)
	Stderr   string // classification text when Died
	Fatal    string // "out of memory", "stack overflow", "deadlock", "panic", "other"
}

func startWorker(mode string, extraEnv ...string) (*workerProc, error) {
	exe, err := os.Executable()
	if err != nil {
		return nil, err
	}
	cmd := exec.Command(exe)
	cmd.Env = append(append(os.Environ(), "VERIF_WORKER="+mode, "GOTRACEBACK=single"), extraEnv...)
	w := &workerProc{mode: mode, cmd: cmd, stderr: &bytes.Buffer{}}
	w.stdin, err = cmd.StdinPipe()
	if err != nil {
		return nil, err
	}
	so, err := cmd.StdoutPipe()
	if err != nil {
		return nil, err
	}
	w.stdout = bufio.NewReaderSize(so, 1<<20)
	cmd.Stderr = &limitedWriter{buf: w.stderr, max: 64 << 10}
	if err := cmd.Start(); err != nil {
		return nil, err
	}
	return w, nil
}

type limitedWriter struct {
	mu  sync.Mutex
	buf *bytes.Buffer
	max int
}

func (l *limitedWriter) Write(p []byte) (int, error) {
	l.mu.Lock()
	defer l.mu.Unlock()
	if room := l.max - l.buf.Len(); room > 0 {
		if len(p) > room {
			l.buf.Write(p[:room])
		} else {
			l.buf.Write(p)
		}
	}
	return len(p), nil
}

func (l *limitedWriter) String() string {
	l.mu.Lock()
	defer l.mu.Unlock()
	return l.buf.String()
}

func (w *workerProc) kill() {
	if w.cmd != nil && w.cmd.Process != nil {
		_ = w.cmd.Process.Kill()
		_ = w.stdin.Close()
		_ = w.cmd.Wait()
	}
}

func classifyFatal(stderr string) string {
	switch {
	case bytes.Contains([]byte(stderr), []byte("out of memory")) || bytes.Contains([]byte(stderr), []byte("cannot allocate memory")):
		return "out of memory"
	case bytes.Contains([]byte(stderr), []byte("stack overflow")) || bytes.Contains([]byte(stderr), []byte("stack exceeds")):
		return "stack overflow"
	case bytes.Contains([]byte(stderr), []byte("all goroutines are asleep")):
		return "deadlock"
	case bytes.Contains([]byte(stderr), []byte("panic:")):
		return "panic"
	}
	return "other"
}

// call sends one input and waits for the reply under a watchdog.
func (w *workerProc) call(input []byte, timeout time.Duration) workerOutcome {
	var lenb [4]byte
	binary.BigEndian.PutUint32(lenb[:], uint32(len(input)))
	type res struct {
		line []byte
		err  error
	}
	ch := make(chan res, 1)
	go func() {
		if _, err := w.stdin.Write(lenb[:]); err != nil {
			ch <- res{nil, err}
			return
		}
		if _, err := w.stdin.Write(input); err != nil {
			ch <- res{nil, err}
			return
		}
		line, err := w.stdout.ReadBytes('\n')
		ch <- res{line, err}
	}()
	select {
	case r := <-ch:
		if r.err != nil {
			_ = w.stdin.Close()
			_ = w.cmd.Wait()
			se := w.cmd.Stderr.(*limitedWriter).String()
			return workerOutcome{Died: true, Stderr: tail(se, 1500), Fatal: classifyFatal(se)}
		}
		var rep workerReply
		if err := json.Unmarshal(r.line, &rep); err != nil {
			w.kill()
			return workerOutcome{Died: true, Stderr: "bad reply: " + string(r.line), Fatal: "other"}
		}
		return workerOutcome{Reply: &rep}
	case <-time.After(timeout):
		w.kill()
		return workerOutcome{TimedOut: true}
	}
}

func tail(s string, n int) string {
	if len(s) <= n {
		return s
	}
	return "…" + s[len(s)-n:]
}

// workerPool keeps one live worker per mode for the current process.
type workerPool struct {
	mu      sync.Mutex
	workers map[string]*workerProc
	starts  int
	recent  map[string][][]byte // inputs already handled by the live worker of a mode (most recent last, at most 8)
}

var pool = &workerPool{workers: map[string]*workerProc{}, recent: map[string][][]byte{}}

// history returns the inputs the live worker of a mode has handled so far (up to 8).
func (p *workerPool) history(mode string) [][]byte {
	p.mu.Lock()
	defer p.mu.Unlock()
	return append([][]byte(nil), p.recent[mode]...)
}

// run executes one input in the isolated worker of the given mode,
// (re)starting the worker as needed.
func (p *workerPool) run(mode string, input []byte, timeout time.Duration) (workerOutcome, error) {
	p.mu.Lock()
	defer p.mu.Unlock()
	w := p.workers[mode]
	if w == nil {
		var err error
		w, err = startWorker(mode)
		if err != nil {
			return workerOutcome{}, err
		}
		p.starts++
		p.workers[mode] = w
		p.recent[mode] = nil
	}
	out := w.call(input, timeout)
	if out.Died || out.TimedOut {
		delete(p.workers, mode)
		p.recent[mode] = nil
	} else if len(input) <= 1<<16 {
		p.recent[mode] = append(p.recent[mode], append([]byte(nil), input...))
		if len(p.recent[mode]) > 8 {
			p.recent[mode] = p.recent[mode][1:]
		}
	}
	return out, nil
}

// runFreshAfter replays a history in a brand-new worker and then executes the input.
func runFreshAfter(mode string, history [][]byte, input []byte, timeout time.Duration) (workerOutcome, error) {
	w, err := startWorker(mode)
	if err != nil {
		return workerOutcome{}, err
	}
	defer w.kill()
	for _, h := range history {
		if o := w.call(h, timeout); o.Died || o.TimedOut {
			return workerOutcome{TimedOut: o.TimedOut, Died: o.Died, Stderr: "while replaying the history: " + o.Stderr, Fatal: o.Fatal}, nil
		}
	}
	return w.call(input, timeout), nil
}

// runFresh executes one input alone in a brand-new worker (second stage of the hang rule).
func runFresh(mode string, input []byte, timeout time.Duration, extraEnv ...string) (workerOutcome, error) {
	w, err := startWorker(mode, extraEnv...)
	if err != nil {
		return workerOutcome{}, err
	}
	defer w.kill()
	return w.call(input, timeout), nil
}

// measuredDecode runs hsms.Parse in-process and returns the TotalAlloc delta
// (minimum of up to three runs, to discount unrelated concurrent allocation)
// and the text of a panic that escaped the decoder, if any.
func measuredDecode(in []byte) (alloc uint64, panicText string) {
	best := ^uint64(0)
	for attempt := 0; attempt < 3; attempt++ {
		var ms0, ms1 runtime.MemStats
		buf := append([]byte(nil), in...)
		runtime.ReadMemStats(&ms0)
		func() {
			defer func() {
				if r := recover(); r != nil {
					panicText = fmt.Sprint(r)
				}
			}()
			hsms.Parse(buf)
		}()
		runtime.ReadMemStats(&ms1)
		if d := ms1.TotalAlloc - ms0.TotalAlloc; d < best {
			best = d
		}
		if panicText != "" || best <= uint64(c07AllocBase+c07AllocPerByte*len(in)) {
			break
		}
	}
	return best, panicText
}
