package props

import (
	"bytes"
	"fmt"
	"testing"

	"verifharness/model"

	"github.com/wolimst/lib-secs2-hsms-go/pkg/ast"
	"github.com/wolimst/lib-secs2-hsms-go/pkg/parser/hsms"
	"github.com/wolimst/lib-secs2-hsms-go/pkg/parser/sml"
	"pgregory.net/rapid"
)

// C01 - HSMS encode -> decode round trip preserves every data message.

type c01Case struct {
	Hdr     Hdr         `json:"hdr"`
	Tree    *model.Node `json:"tree"` // nil: empty message text
	Variant int         `json:"variant"`
	Route   int         `json:"route"` // 0 constructors, 1 template + producers, 2 SML parser, 3 HSMS decoder output
	Mask    uint64      `json:"mask"`
	Order   int         `json:"order"`
}

func init() { registerReplay("c01", checkC01) }

var routeNames = []string{"constructors", "template+fill", "sml-parser", "hsms-decoder", "encoded-then-readdressed", "decoded-then-readdressed"}

func smlHeader(h Hdr) model.SMLHeader {
	return model.SMLHeader{Name: h.Name, Stream: h.Stream, Function: h.Function, Wait: h.Wait, Dir: h.Dir}
}

// buildByRoute produces the complete message the case describes; excluded != ""
// means the route could not produce a message for a reason outside C01.
func buildByRoute(c c01Case) (msg *ast.DataMessage, excluded string) {
	h := c.Hdr
	switch c.Route {
	case 1, 2:
		if c.Tree == nil {
			m := ast.NewDataMessage(h.Name, h.Stream, h.Function, 2, h.Dir, ast.NewEmptyItemNode())
			return completeMessage(m, h, nil, c.Order), ""
		}
		tmpl, as := templatize(c.Tree, c.Mask)
		fill := assignMap(as, c.Variant)
		var m *ast.DataMessage
		if c.Route == 1 {
			w := 2
			if c.Mask&1 == 1 {
				w = h.Wait
			}
			m = ast.NewDataMessage(h.Name, h.Stream, h.Function, w, h.Dir, buildItem(tmpl, c.Variant))
		} else {
			hh := smlHeader(h)
			if c.Mask&1 == 0 {
				hh.Wait = 2
			}
			text := model.RenderPlain(model.MessageTokens(hh, tmpl, model.Canonical{}))
			msgs, errs, _ := sml.Parse(text)
			if len(errs) > 0 || len(msgs) != 1 {
				// whether this text must be accepted is the business of C04/C05, not of C01
				return nil, "sml-route-text-not-accepted"
			}
			m = msgs[0]
		}
		return completeMessage(m, h, fill, c.Order), ""
	case 4, 5:
		// the message exists (and has been encoded, or came out of the decoder) under other addressing data and is
		// then re-addressed with the session id / system bytes of the case: a history, not a fresh construction
		other := ast.NewHSMSDataMessage(h.Name, h.Stream, h.Function, h.Wait, h.Dir, buildItemOrEmpty(c.Tree, c.Variant), (h.Session+1)%65536, []byte{byte(c.Mask), byte(c.Mask >> 8), 0x5A, ^h.System[3]})
		enc := other.ToBytes()
		if c.Route == 5 {
			dec, ok := hsms.Parse(enc)
			dm, isData := dec.(*ast.DataMessage)
			if !ok || !isData {
				return nil, ""
			}
			other = dm
			_ = other.ToBytes()
		}
		return other.SetSessionIDAndSystemBytes(h.Session, h.System), ""
	case 3:
		first := ast.NewHSMSDataMessage(h.Name, h.Stream, h.Function, h.Wait, h.Dir, buildItemOrEmpty(c.Tree, c.Variant), h.Session, h.System)
		dec, ok := hsms.Parse(first.ToBytes())
		if !ok {
			return nil, "" // reported by the caller as a violation of the first leg
		}
		dm, isData := dec.(*ast.DataMessage)
		if !isData {
			return nil, ""
		}
		return dm, ""
	}
	return ast.NewHSMSDataMessage(h.Name, h.Stream, h.Function, h.Wait, h.Dir, buildItemOrEmpty(c.Tree, c.Variant), h.Session, h.System), ""
}

func checkC01(c c01Case) (ci caseInfo, err error) {
	sh := shapeOf(c.Tree)
	ci.label("route:" + routeNames[c.Route%6])
	msg, excluded := buildByRoute(c)
	if excluded != "" {
		stats.exclude(excluded)
		ci.label("excluded:" + excluded)
		return ci, nil
	}
	if msg == nil {
		return ci, fmt.Errorf("route %s: decoding the encoding of the constructed message failed (first leg of decode-again)", routeNames[c.Route%6])
	}
	ci.Nontrivial = sh.Elems >= 1 && (len(sh.Kinds) >= 2 || sh.MaxLenBytes >= 2 || sh.Depth >= 2)
	ci.label("lenbytes=%d", sh.MaxLenBytes)
	if sh.NonEmptyBinary {
		ci.label("nonempty-binary")
	}
	if sh.Depth >= 3 {
		ci.label("depth>=3")
	}
	for k := range sh.Kinds {
		ci.label("kind:" + k)
	}
	if c.Tree == nil {
		ci.label("empty-text")
	}

	h := c.Hdr
	b := msg.ToBytes()
	if len(b) == 0 {
		return ci, fmt.Errorf("complete message %q (route %s) encodes to nothing", msg.Header(), routeNames[c.Route%6])
	}
	// history of the decoder: a few damaged variants of the same frame go through it first (a network peer
	// sends garbage now and then); decoding a later valid frame must not depend on what was rejected before
	if noise := int(c.Mask>>8) % 4; noise > 0 && len(b) > 16 && len(b) < 4096 {
		for k := 0; k < noise; k++ {
			bad := append([]byte(nil), b...)
			at := 14 + int(model.Mix64(c.Mask+uint64(k))%uint64(len(b)-14))
			switch k % 3 {
			case 0:
				bad = patchLen(bad[:at]) // truncated inside the item, outer length patched
			case 1:
				bad[at] ^= 0xFF
			default:
				bad = patchLen(append(bad[:at:at], 0x93, 0x04, 0x7F, 0xC0, 0x00, 0x00)) // a NaN item: refused by the constructor
			}
			try(func() { hsms.Parse(bad) })
		}
		ci.label("decoder-saw-damaged-frames-first")
	}
	dec, ok := hsms.Parse(b)
	if !ok {
		return ci, fmt.Errorf("hsms.Parse rejects the encoding of %q, item %s (bytes %s)", msg.Header(), briefOf(c.Tree), hexPrefix(b, 40))
	}
	dm, isData := dec.(*ast.DataMessage)
	if !isData {
		return ci, fmt.Errorf("decoded message has type %T / %q, want a data message", dec, dec.Type())
	}
	if dm.StreamCode() != h.Stream || dm.FunctionCode() != h.Function || dm.WaitBit() != h.waitString() ||
		dm.SessionID() != h.Session || !bytes.Equal(dm.SystemBytes(), h.System) {
		return ci, fmt.Errorf("header fields not preserved: got S%dF%d wait=%s session=%d system=%x, want S%dF%d wait=%s session=%d system=%x",
			dm.StreamCode(), dm.FunctionCode(), dm.WaitBit(), dm.SessionID(), dm.SystemBytes(),
			h.Stream, h.Function, h.waitString(), h.Session, []byte(h.System))
	}
	if got, want := itemPart(dm.String()), itemPart(msg.String()); got != want {
		return ci, fmt.Errorf("item tree not preserved (item %s):\n decoded: %.300s\n original: %.300s", briefOf(c.Tree), got, want)
	}
	if b2 := dm.ToBytes(); !bytes.Equal(b2, b) {
		return ci, fmt.Errorf("re-encoding the decoded message differs (item %s): %s", briefOf(c.Tree), firstDiff(b2, b))
	}
	return ci, nil
}

func briefOf(n *model.Node) string {
	if n == nil {
		return "(none)"
	}
	return n.Brief()
}

func genC01(t *rapid.T) c01Case {
	c := c01Case{
		Hdr:     genHdr(t, true),
		Variant: rapid.IntRange(0, 11).Draw(t, "variant"),
		Route:   rapid.SampledFrom([]int{0, 0, 1, 1, 2, 3, 4, 5}).Draw(t, "route"),
		Mask:    rapid.Uint64().Draw(t, "mask"),
		Order:   rapid.IntRange(0, 11).Draw(t, "order"),
	}
	c.Tree = genTree(t, treeOpts{Bulk: true}, newNamer(true, false))
	if rapid.IntRange(0, 30).Draw(t, "emptyText") == 30 {
		c.Tree = nil
	}
	if c.Route == 2 && c.Tree != nil {
		// the SML lexer is quadratic in the text length (line/column recomputed per token):
		// keep the SML route to the 255|256 border, which already needs a 2-byte length field
		c.Tree.Walk(func(n *model.Node) {
			if n.Bulk != nil && n.Bulk.N > 600 {
				n.Bulk.N = 253 + n.Bulk.N%6
				stats.exclude("sml-route-bulk-capped-to-255|256-border")
			}
		})
	}
	return c
}

func TestC01(t *testing.T) {
	rapidProp(t, "C01", "c01", genC01, checkC01)
}

// TestC01Big: thorough only - items of maximal size for the 1-byte formats and a
// large float item, decoded back (16 MiB payloads).
func TestC01Big(t *testing.T) {
	if !isThorough() {
		t.Skip("thorough only")
	}
	shard, nshards := shardInfo()
	kinds := []string{model.A, model.B, model.BOOLEAN, model.I1, model.U1, model.I2, model.U4, model.F4, model.F8, model.I8}
	for i, k := range kinds {
		if i%nshards != shard {
			continue
		}
		n := model.MaxLen / model.Width(k)
		c := c01Case{
			Hdr:  Hdr{Stream: 1, Function: 3, Wait: 1, Dir: "H->E", Session: 65535, System: []byte{1, 2, 3, 4}},
			Tree: &model.Node{Kind: k, Bulk: &model.Bulk{N: n, Seed: uint64(i) + verifSeed()}},
		}
		runCase[c01Case](t, "C01", "c01", checkC01, c)
		// the same maximal item as a child of a list, next to a sibling: the children together exceed 16,777,215 bytes,
		// which is legal (a list's length field counts children)
		nested := c
		nested.Tree = &model.Node{Kind: model.L, Children: []model.Child{{Node: c.Tree}, {Node: &model.Node{Kind: model.U2, Elems: []model.Elem{{U: 513}}}}}}
		runCase[c01Case](t, "C01", "c01", checkC01, nested)
	}
}
