package props
