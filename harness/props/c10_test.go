package props

import (
	"fmt"
	"strings"
	"testing"

	"verifharness/model"

	"github.com/wolimst/lib-secs2-hsms-go/pkg/ast"
	"pgregory.net/rapid"
)

// C10 - ellipsis expansion repeats, renames and renumbers as documented:
// reference expander model, exhaustive over small templates, random beyond.

type eFill struct {
	K int `json:"k"` // index of the ellipsis in printed order
	N int `json:"n"` // repeat count
}

type c10Case struct {
	Tree    *model.Node `json:"tree"`
	Rounds  [][]eFill   `json:"rounds"`
	Variant int         `json:"variant"`
}

func init() { registerReplay("c10", checkC10) }

func ellipsisNames(vars []string) []string {
	var out []string
	for _, v := range vars {
		if model.IsEllipsisName(v) {
			out = append(out, v)
		}
	}
	return out
}

// compareExpanded checks a library result against the model's.
func normEllipses(vs []string) []string {
	out := make([]string, len(vs))
	for i, v := range vs {
		out[i] = v
		if model.IsEllipsisName(v) {
			out[i] = "..."
		}
	}
	return out
}

func compareExpanded(lib ast.ItemNode, ref *model.Node, matched bool, variant int, when string, carry []string) error {
	direct := buildItem(ref, variant)
	if got, want := itemString(lib), itemString(direct); got != want {
		return fmt.Errorf("%s: printed form differs from the reference expansion:\n got: %s\nwant: %s", when, clipStr(got, 500), clipStr(want, 500))
	}
	if lib.Size() != ref.Count() {
		return fmt.Errorf("%s: Size() = %d, reference %d", when, lib.Size(), ref.Count())
	}
	got, want := lib.Variables(), ref.Variables()
	agree := sameStrings(got, want)
	if matched && !agree {
		agree = model.EllipsisNamesAgree(got, want)
	}
	if !matched && !agree && carry != nil {
		// no ellipsis was filled: the ellipsis names must be the ones the receiver had
		// (which may legitimately differ from the model's spelling of a single ellipsis)
		agree = sameStrings(ellipsisNames(got), carry) && sameStrings(normEllipses(got), normEllipses(want))
	}
	if !agree {
		return fmt.Errorf("%s: Variables() = %q, reference %q", when, got, want)
	}
	seen := map[string]bool{}
	for _, v := range got {
		if seen[v] {
			return fmt.Errorf("%s: variable name %q occurs twice in %q", when, v, got)
		}
		seen[v] = true
	}
	return nil
}

// varOwners maps every variable of a model tree to the value a single fill uses.
func singleFills(n *model.Node) []Assign {
	var out []Assign
	n.Walk(func(x *model.Node) {
		if x.Bulk != nil {
			return
		}
		switch x.Kind {
		case model.L:
			for _, c := range x.Children {
				if c.Node == nil && !model.IsEllipsisName(c.Var) {
					out = append(out, Assign{Name: c.Var, Kind: "item", Node: &model.Node{Kind: model.U1, Elems: []model.Elem{{U: 7}}}})
				}
			}
		case model.A:
			if x.AVar != nil {
				s := strings.Repeat("z", x.AVar.Min)
				out = append(out, Assign{Name: x.AVar.Name, Kind: model.A, Str: &s})
			}
		default:
			for _, e := range x.Elems {
				if e.Var == "" {
					continue
				}
				var v model.Elem
				switch {
				case x.Kind == model.BOOLEAN:
					v = model.Elem{T: true}
				case model.IsSigned(x.Kind):
					v = model.Elem{I: -1}
				case model.IsFloat(x.Kind):
					v = model.Elem{F: 0x3FF8000000000000}
				default:
					v = model.Elem{U: 9}
				}
				out = append(out, Assign{Name: e.Var, Kind: x.Kind, Elem: &v})
			}
		}
	})
	return out
}

func checkC10(c c10Case) (ci caseInfo, err error) {
	lib := buildItem(c.Tree, c.Variant)
	ref := c.Tree
	filledPositive, renamed := false, false
	for r, round := range c.Rounds {
		libE, refE := ellipsisNames(lib.Variables()), ellipsisNames(ref.Variables())
		if len(libE) != len(refE) {
			return ci, fmt.Errorf("round %d: library has %d ellipses, reference %d", r+1, len(libE), len(refE))
		}
		libFill, refFill := map[string]interface{}{}, map[string]int{}
		for _, f := range round {
			if len(libE) == 0 {
				break
			}
			k := f.K % len(libE)
			libFill[libE[k]] = f.N
			refFill[refE[k]] = f.N
			if f.N > 0 {
				filledPositive = true
			}
		}
		before := map[string]bool{}
		for _, v := range ref.Variables() {
			before[v] = true
		}
		next, matched := model.RefExpand(ref, refFill)
		if dup := firstDuplicate(next.Variables()); dup != "" {
			// the expansion would generate a name that exists already: only a refusal is acceptable
			ci.label("expansion-generates-a-duplicate-name")
			var res ast.ItemNode
			if p, _ := try(func() { res = lib.FillVariables(libFill) }); !p {
				return ci, fmt.Errorf("round %d: FillVariables(%v) accepted although the expansion generates the name %q twice: %q", r+1, libFill, dup, res.Variables())
			}
			return ci, nil
		}
		if c.Variant%2 == 1 {
			touchItem(lib)
		}
		var res ast.ItemNode
		given := fmt.Sprint(libFill)
		if p, msg := try(func() { res = lib.FillVariables(libFill) }); p {
			return ci, fmt.Errorf("round %d: FillVariables(%v) panicked: %s\ntemplate: %s", r+1, libFill, msg, clipStr(itemString(lib), 400))
		}
		if after := fmt.Sprint(libFill); after != given {
			return ci, fmt.Errorf("round %d: FillVariables changed the map it was given: %s -> %s", r+1, given, after)
		}
		// the same map object applied once more to the same template gives the same result
		if again := lib.FillVariables(libFill); itemString(again) != itemString(res) || !sameStrings(again.Variables(), res.Variables()) {
			return ci, fmt.Errorf("round %d: applying the same map %s a second time gives a different result:\nfirst:  %s\nsecond: %s", r+1, given, clipStr(itemString(res), 300), clipStr(itemString(again), 300))
		}
		if err := compareExpanded(res, next, matched, c.Variant, fmt.Sprintf("round %d fills %v", r+1, refFill), libE); err != nil {
			return ci, err
		}
		for _, v := range next.Variables() {
			if !before[v] && !model.IsEllipsisName(v) {
				renamed = true
			}
		}
		// the same template as the item of a message: filling the message is filling its item, also when one map
		// carries the repeat counts together with values for names that only the expansion generates
		{
			oneCall := map[string]interface{}{}
			for k, v := range libFill {
				oneCall[k] = v
			}
			extra, kept := 0, 0
			after := map[string]bool{}
			keptItemVar := ""
			for _, a := range singleFills(next) {
				after[a.Name] = true
				if !before[a.Name] && extra < 2 && c.Variant%3 != 0 {
					oneCall[a.Name] = a.goValue(c.Variant)
					extra++
				}
				// names that the expansion leaves as they are (outside every repeated group, or in a group filled with 0)
				// filled in the same call as the counts
				if before[a.Name] && kept < 2 && c.Variant%4 >= 2 {
					oneCall[a.Name] = a.goValue(c.Variant)
					kept++
					extra++
					ci.label("one-call:counts+unchanged-names")
				}
				if before[a.Name] && a.Kind == "item" && keptItemVar == "" {
					keptItemVar = a.Name
				}
			}
			if len(libFill) > 0 {
				// what is refused alone is refused next to a repeat count: a number for a list-level item variable
				if keptItemVar != "" {
					bad := map[string]interface{}{keptItemVar: 5}
					if alone, _ := try(func() { res.FillVariables(bad) }); alone {
						for k, v := range libFill {
							bad[k] = v
						}
						var got ast.ItemNode
						if p, _ := try(func() { got = lib.FillVariables(bad) }); !p {
							return ci, fmt.Errorf("round %d: the number 5 for the item variable %q is refused alone but accepted next to the repeat counts %v: %s", r+1, keptItemVar, libFill, clipStr(itemString(got), 300))
						}
						ci.label("one-call:refused-value-next-to-counts")
					}
				}
				// a key that names a variable only BEFORE the expansion names nothing afterwards and is ignored
				for _, name := range ref.Variables() {
					if after[name] || model.IsEllipsisName(name) {
						continue
					}
					stale := map[string]interface{}{name: 5}
					for k, v := range libFill {
						stale[k] = v
					}
					var got ast.ItemNode
					if p, pmsg := try(func() { got = lib.FillVariables(stale) }); p {
						return ci, fmt.Errorf("round %d: the key %q names no variable once %v is applied, yet FillVariables(%v) panics: %s", r+1, name, libFill, stale, pmsg)
					}
					if itemString(got) != itemString(res) || !sameStrings(got.Variables(), res.Variables()) {
						return ci, fmt.Errorf("round %d: the key %q names no variable once %v is applied, yet it changes the result:\nwith:    %s\nwithout: %s", r+1, name, libFill, clipStr(itemString(got), 400), clipStr(itemString(res), 400))
					}
					ci.label("one-call:stale-key-ignored")
					break
				}
			}
			msg := ast.NewDataMessage("c10", 1, 1, 0, "H->E", lib)
			var viaItem ast.ItemNode
			var viaMsg *ast.DataMessage
			pi, _ := try(func() { viaItem = lib.FillVariables(oneCall) })
			pm, pmsg := try(func() { viaMsg = msg.FillVariables(oneCall) })
			// one call with counts and generated names is the two calls one after the other (the counts are applied
			// first, says the documentation of ListNode.FillVariables)
			if !pi && extra > 0 {
				onlyNames := map[string]interface{}{}
				for k, v := range oneCall {
					if _, isCount := libFill[k]; !isCount {
						onlyNames[k] = v
					}
				}
				var twoSteps ast.ItemNode
				if p2, _ := try(func() { twoSteps = res.FillVariables(onlyNames) }); !p2 {
					if itemString(twoSteps) != itemString(viaItem) || !sameStrings(twoSteps.Variables(), viaItem.Variables()) {
						return ci, fmt.Errorf("round %d: FillVariables(%v) in one call differs from the counts first and the generated names afterwards:\none call:  %s %q\ntwo calls: %s %q", r+1, oneCall,
							clipStr(itemString(viaItem), 400), viaItem.Variables(), clipStr(itemString(twoSteps), 400), twoSteps.Variables())
					}
					ci.label("one-call==two-calls")
				}
			}
			switch {
			case pi != pm:
				return ci, fmt.Errorf("round %d: FillVariables(%v) on the item panics=%v, on a message holding the item panics=%v (%s)", r+1, oneCall, pi, pm, pmsg)
			case !pi:
				if got, want := itemPart(strings.TrimSuffix(viaMsg.String(), "\n.")), itemString(viaItem); got != want || !sameStrings(viaMsg.Variables(), viaItem.Variables()) {
					return ci, fmt.Errorf("round %d: FillVariables(%v) through a message differs from filling the item itself:\nmessage: %s %q\nitem:    %s %q", r+1, oneCall,
						clipStr(got, 400), viaMsg.Variables(), clipStr(want, 400), viaItem.Variables())
				}
				if extra > 0 {
					ci.label("one-call:counts+generated-names-through-message")
				}
			}
		}
		lib, ref = res, next
	}
	ci.Nontrivial = filledPositive && renamed
	ci.label("rounds=%d", len(c.Rounds))
	if filledPositive {
		ci.label("filled-n>0")
	}
	// every generated name can be filled individually
	libVars := lib.Variables()
	refVars := ref.Variables()
	fills := singleFills(ref)
	byName := map[string]Assign{}
	for _, a := range fills {
		byName[a.Name] = a
	}
	limit := 0
	for i, name := range refVars {
		if limit >= 10 {
			break
		}
		limit++
		if model.IsEllipsisName(name) {
			next, matched := model.RefExpand(ref, map[string]int{name: 1})
			if dup := firstDuplicate(next.Variables()); dup != "" {
				if p, _ := try(func() { lib.FillVariables(map[string]interface{}{libVars[i]: 1}) }); !p {
					return ci, fmt.Errorf("filling ellipsis #%d alone with 1 generates the name %q twice but is accepted", i, dup)
				}
				continue
			}
			res := lib.FillVariables(map[string]interface{}{libVars[i]: 1})
			if err := compareExpanded(res, next, matched, c.Variant, fmt.Sprintf("filling ellipsis #%d alone with 1", i), nil); err != nil {
				return ci, err
			}
			continue
		}
		a, ok := byName[name]
		if !ok {
			return ci, fmt.Errorf("harness: no owner for variable %q", name)
		}
		var res ast.ItemNode
		if p, msg := try(func() { res = lib.FillVariables(map[string]interface{}{name: a.goValue(c.Variant)}) }); p {
			return ci, fmt.Errorf("generated name %q cannot be filled individually: %s", name, msg)
		}
		next, serr := substModel(ref, map[string]Assign{name: a})
		if serr != nil {
			return ci, fmt.Errorf("harness: %v", serr)
		}
		if err := compareExpanded(res, next, false, c.Variant, fmt.Sprintf("filling %q alone", name), ellipsisNames(libVars)); err != nil {
			return ci, err
		}
	}
	return ci, nil
}

// ---------------------------------------------------------------------------
// random templates

func genC10(t *rapid.T) c10Case {
	c := c10Case{Variant: rapid.IntRange(0, 11).Draw(t, "variant")}
	nm := newNamer(false, false)
	g := &treeGen{o: treeOpts{Vars: true, Ellipsis: true, MaxDepth: 4, MaxElems: 4, ASCIIMax: 4, VarPct: 45, NoDeep: true}, nm: nm}
	// force a list root
	root := &model.Node{Kind: model.L}
	n := rapid.IntRange(1, 5).Draw(t, "rootChildren")
	ell := -1
	if rapid.IntRange(0, 3).Draw(t, "rootEllipsis") > 0 {
		ell = rapid.IntRange(1, n).Draw(t, "rootEllipsisAt")
	}
	for i := 0; i <= n; i++ {
		if i == ell {
			root.Children = append(root.Children, model.Child{Var: "..."})
			continue
		}
		if i == n {
			break
		}
		if rapid.IntRange(0, 5).Draw(t, "rootItemVar") == 5 {
			root.Children = append(root.Children, model.Child{Var: nm.draw(t)})
		} else {
			root.Children = append(root.Children, model.Child{Node: g.node(t, 2, 10)})
		}
	}
	c.Tree = root
	if rapid.IntRange(0, 3).Draw(t, "indexedNames") == 3 {
		// the variables already carry an index (as left behind by an earlier expansion, or chosen by the user):
		// the base names stay distinct, so no generated name can meet an existing one
		for _, a := range singleFills(root) {
			renameVar(root, a.Name, fmt.Sprintf("%s[%d]", a.Name, rapid.IntRange(0, 12).Draw(t, "nameIndex")))
		}
	}
	if rapid.IntRange(0, 5).Draw(t, "sharedBase") == 5 {
		// two variables of ONE item share a base name (x and x[1]): legal as long as the names generated by an
		// expansion stay distinct; where they do not, the reference expansion shows the duplicate and a refusal is expected
		root.Walk(func(x *model.Node) {
			var vars []int
			for i := range x.Elems {
				if x.Elems[i].Var != "" {
					vars = append(vars, i)
				}
			}
			if len(vars) >= 2 {
				a, b := vars[0], vars[len(vars)-1]
				if rapid.Bool().Draw(t, "indexedFirst") {
					a, b = b, a
				}
				x.Elems[b].Var = fmt.Sprintf("%s[%d]", x.Elems[a].Var, rapid.IntRange(0, 2).Draw(t, "sharedIndex"))
			}
		})
	}
	ne := numberEllipses(root)
	if ne == 1 && rapid.Bool().Draw(t, "plainName") {
		root.Walk(func(x *model.Node) {
			for i, ch := range x.Children {
				if ch.Node == nil && model.IsEllipsisName(ch.Var) {
					x.Children[i].Var = "..."
				}
			}
		})
	}
	rounds := rapid.IntRange(1, 3).Draw(t, "rounds")
	for r := 0; r < rounds; r++ {
		var round []eFill
		k := rapid.IntRange(0, 4).Draw(t, "nfills")
		for i := 0; i < k; i++ {
			nn := rapid.IntRange(0, 4).Draw(t, "n")
			if rapid.IntRange(0, 19).Draw(t, "largeCount") == 19 {
				nn = rapid.IntRange(9, 13).Draw(t, "nLarge") // two-digit copy indices, more than ten remaining ellipses
			}
			round = append(round, eFill{K: rapid.IntRange(0, 7).Draw(t, "k"), N: nn})
		}
		c.Rounds = append(c.Rounds, round)
	}
	return c
}

func TestC10(t *testing.T) {
	rapidProp(t, "C10", "c10", genC10, checkC10)
}

// ---------------------------------------------------------------------------
// exhaustive small templates

// entry kinds of the enumeration: V value item, X item with an element variable,
// S ASCII variable, I item variable, E ellipsis, and nested lists.
func enumInner(maxLen int) [][]byte {
	var out [][]byte
	var rec func(cur []byte, hasE bool)
	rec = func(cur []byte, hasE bool) {
		out = append(out, append([]byte(nil), cur...))
		if len(cur) == maxLen {
			return
		}
		for _, k := range []byte("VXSIE") {
			if k == 'E' && (len(cur) == 0 || hasE) {
				continue
			}
			rec(append(cur, k), hasE || k == 'E')
		}
	}
	rec(nil, false)
	return out
}

func nodeFromSpec(spec []byte, inner [][]byte, innerIdx []int, counter *int) *model.Node {
	n := &model.Node{Kind: model.L}
	ii := 0
	for _, k := range spec {
		*counter++
		id := *counter
		switch k {
		case 'V':
			n.Children = append(n.Children, model.Child{Node: &model.Node{Kind: model.U1, Elems: []model.Elem{{U: uint64(id % 200)}}}})
		case 'X':
			n.Children = append(n.Children, model.Child{Node: &model.Node{Kind: model.I2, Elems: []model.Elem{{I: 5}, {Var: fmt.Sprintf("x%d", id)}}}})
		case 'S':
			n.Children = append(n.Children, model.Child{Node: &model.Node{Kind: model.A, AVar: &model.AVar{Name: fmt.Sprintf("s%d", id), Min: id % 3, Max: -1}}})
		case 'I':
			n.Children = append(n.Children, model.Child{Var: fmt.Sprintf("i%d", id)})
		case 'E':
			n.Children = append(n.Children, model.Child{Var: "..."})
		case 'N':
			sub := nodeFromSpec(inner[innerIdx[ii]], nil, nil, counter)
			ii++
			n.Children = append(n.Children, model.Child{Node: sub})
		}
	}
	return n
}

func TestC10Enum(t *testing.T) {
	shard, nshards := shardInfo()
	inner := enumInner(2)
	// outer specs: up to 3 entries from V X S I E N(inner k)
	type outerSpec struct {
		spec []byte
		idx  []int
	}
	var outers []outerSpec
	var rec func(cur []byte, idx []int, hasE bool)
	rec = func(cur []byte, idx []int, hasE bool) {
		if len(cur) > 0 {
			outers = append(outers, outerSpec{append([]byte(nil), cur...), append([]int(nil), idx...)})
		}
		if len(cur) == 3 {
			return
		}
		for _, k := range []byte("VXSIE") {
			if k == 'E' && (len(cur) == 0 || hasE) {
				continue
			}
			rec(append(cur, k), idx, hasE || k == 'E')
		}
		for i := range inner {
			rec(append(cur, 'N'), append(idx, i), hasE)
		}
	}
	rec(nil, nil, false)
	stride := 1
	if !isThorough() {
		stride = 4 // quick: a seeded quarter of the templates
	}
	offset := int(verifSeed() % uint64(stride))
	templates := 0
	for ti, o := range outers {
		if ti%nshards != shard || (ti/nshards)%stride != offset {
			continue
		}
		templates++
		counter := 0
		tree := nodeFromSpec(o.spec, inner, o.idx, &counter)
		ne := numberEllipses(tree)
		// every assignment of {absent, 0, 1, 2} to each ellipsis
		total := 1
		for i := 0; i < ne; i++ {
			total *= 4
		}
		for a := 0; a < total; a++ {
			var round []eFill
			x := a
			for k := 0; k < ne; k++ {
				if v := x % 4; v > 0 {
					round = append(round, eFill{K: k, N: v - 1})
				}
				x /= 4
			}
			runCase[c10Case](t, "C10", "c10", checkC10, c10Case{Tree: tree, Rounds: [][]eFill{round}, Variant: 0})
		}
		if ne == 1 {
			// the same template with the ellipsis called "..." instead of "...[0]"
			plain := tree.Clone()
			plain.Walk(func(x *model.Node) {
				for i, ch := range x.Children {
					if ch.Node == nil && model.IsEllipsisName(ch.Var) {
						x.Children[i].Var = "..."
					}
				}
			})
			for v := 0; v < 3; v++ {
				runCase[c10Case](t, "C10", "c10", checkC10, c10Case{Tree: plain, Rounds: [][]eFill{{{K: 0, N: v}}}, Variant: 0})
			}
		}
	}
	stats.setExtra("enum_templates_total", len(outers))
	stats.labelOnly("enum:templates", int64(templates))
	if isThorough() {
		stats.setExtra("enum", "exhaustive: all list templates with <= 3 entries over {value item, item with variable, ASCII variable, item variable, ellipsis, nested list with <= 2 such entries} x every assignment of {absent,0,1,2} to each ellipsis")
	} else {
		stats.setExtra("enum", fmt.Sprintf("a seeded 1/%d slice of the exhaustive template set", stride))
	}
}

func firstDuplicate(names []string) string {
	seen := map[string]bool{}
	for _, n := range names {
		if seen[n] && !model.IsEllipsisName(n) {
			return n
		}
		seen[n] = true
	}
	return ""
}
