package props

import (
	"bytes"
	"fmt"
	"math/big"
	"strings"
	"testing"

	"verifharness/model"

	"github.com/wolimst/lib-secs2-hsms-go/pkg/ast"
	"github.com/wolimst/lib-secs2-hsms-go/pkg/parser/sml"
	"pgregory.net/rapid"
)

// C05 - SML literals denote exactly the values stored (no silent substitution).
// Texts are built FROM values: the generator knows what every literal denotes.

type smlMsg struct {
	Hdr   Hdr         `json:"hdr"`
	Tree  *model.Node `json:"tree"` // nil: no item
	NoDir bool        `json:"no_dir,omitempty"`
}

type badLiteral struct {
	Text string `json:"text"`
	Why  string `json:"why"`
}

type c05Case struct {
	Msgs   []smlMsg      `json:"msgs"`
	Toks   [][]model.Tok `json:"toks"`
	Class  string        `json:"class"` // accept reject
	Bad    *badLiteral   `json:"bad,omitempty"`
	Labels []string      `json:"labels,omitempty"`
	Text   string        `json:"text"`
}

func init() { registerReplay("c05", checkC05) }

// compareParsed checks one parsed message against its model.
func compareParsed(got *ast.DataMessage, want smlMsg, variant int) error {
	h := want.Hdr
	dir := h.Dir
	if want.NoDir {
		dir = "H<->E"
	}
	if got.Name() != h.Name || got.StreamCode() != h.Stream || got.FunctionCode() != h.Function || got.WaitBit() != h.waitString() || got.Direction() != dir {
		return fmt.Errorf("header: parsed name=%q S%dF%d wait=%s dir=%s, written name=%q S%dF%d wait=%s dir=%s",
			got.Name(), got.StreamCode(), got.FunctionCode(), got.WaitBit(), got.Direction(), h.Name, h.Stream, h.Function, h.waitString(), dir)
	}
	var wantVars []string
	if want.Tree != nil {
		wantVars = want.Tree.Variables()
	}
	if !sameStrings(got.Variables(), wantVars) && !(len(got.Variables()) == 0 && len(wantVars) == 0) {
		return fmt.Errorf("variables: parsed %q, written %q", got.Variables(), wantVars)
	}
	direct := ast.NewDataMessage(h.Name, h.Stream, h.Function, h.Wait, dir, buildItemOrEmpty(want.Tree, variant))
	if got.String() != direct.String() {
		return fmt.Errorf("parsed message differs from the message constructed directly from the denoted values:\nparsed: %s\ndirect: %s", clipStr(got.String(), 500), clipStr(direct.String(), 500))
	}
	// complete both sides and compare the bytes with the reference encoding of the denoted values
	if want.Tree == nil || len(ellipsisNames(wantVars)) == 0 {
		var filled *model.Node
		fill := map[string]interface{}{}
		if want.Tree != nil {
			binds := singleFills(want.Tree)
			fill = assignMap(binds, variant)
			var err error
			filled, err = substModel(want.Tree, bindMap(binds))
			if err != nil {
				return fmt.Errorf("harness: %v", err)
			}
		}
		hc := Hdr{Stream: h.Stream, Function: h.Function, Wait: boolToWait(h.Wait == 1), Session: 77, System: []byte{9, 8, 7, 6}}
		done := completeMessage(got, hc, fill, 6+len(fill)%6)
		ref, _, rerr := model.RefEncodeMsg(modelMsg(hc, filled), nil)
		if rerr != nil {
			return fmt.Errorf("harness: %v", rerr)
		}
		if b := done.ToBytes(); !bytes.Equal(b, ref) {
			return fmt.Errorf("completed parsed message does not encode the denoted values: %s", firstDiff(b, ref))
		}
	}
	return nil
}

func checkC05(c c05Case) (ci caseInfo, err error) {
	ci.Labels = append(ci.Labels, c.Labels...)
	ci.label("class:" + c.Class)
	nonPlain := false
	for _, l := range c.Labels {
		if strings.HasPrefix(l, "spell:") && l != "spell:decimal" && l != "spell:float-shortest" {
			nonPlain = true
		}
	}
	ci.Nontrivial = nonPlain || c.Class != "accept"
	text := c.Text
	var msgs []*ast.DataMessage
	var errs []string
	if p, pm := try(func() { msgs, errs, _ = sml.Parse(text) }); p {
		return ci, fmt.Errorf("sml.Parse panicked: %s\ntext: %s", pm, clipStr(text, 400))
	}
	switch c.Class {
	case "reject":
		if len(errs) == 0 {
			got := ""
			if len(msgs) > 0 {
				got = msgs[len(msgs)-1].String()
			}
			return ci, fmt.Errorf("literal %q (%s) was accepted without an error; text:\n%s\nparsed as: %s", c.Bad.Text, c.Bad.Why, clipStr(text, 500), clipStr(got, 300))
		}
		if len(msgs) != 0 {
			return ci, fmt.Errorf("%d error(s) reported but %d message(s) returned", len(errs), len(msgs))
		}
		return ci, nil
	case "either":
		// the text contains whitespace the grammar does not list (VT, FF, NBSP, ...) between two tokens of an item:
		// it may be refused, but if it is accepted the values must be exactly the written ones
		if len(errs) != 0 {
			if len(msgs) != 0 {
				return ci, fmt.Errorf("%d error(s) reported but %d message(s) returned", len(errs), len(msgs))
			}
			ci.label("either:rejected")
			return ci, nil
		}
		ci.label("either:accepted")
		if len(msgs) != len(c.Msgs) {
			return ci, fmt.Errorf("%d message(s) written, %d returned\ntext:\n%q", len(c.Msgs), len(msgs), clipStr(text, 600))
		}
		for i := range msgs {
			if err := compareParsed(msgs[i], c.Msgs[i], 0); err != nil {
				return ci, fmt.Errorf("text with unusual whitespace was accepted but message %d does not hold the written values: %v\ntext:\n%q", i+1, err, clipStr(text, 600))
			}
		}
		return ci, nil
	case "accept":
		if len(errs) != 0 {
			return ci, fmt.Errorf("text built from the documented grammar was rejected: %q\ntext:\n%s", errs, clipStr(text, 600))
		}
		if len(msgs) != len(c.Msgs) {
			return ci, fmt.Errorf("%d message(s) written, %d returned\ntext:\n%s", len(c.Msgs), len(msgs), clipStr(text, 600))
		}
		for i := range msgs {
			if err := compareParsed(msgs[i], c.Msgs[i], 0); err != nil {
				return ci, fmt.Errorf("message %d: %v\ntext:\n%s", i+1, err, clipStr(text, 600))
			}
		}
		return ci, nil
	}
	return ci, fmt.Errorf("harness: unknown class %q", c.Class)
}

// badLiteralsFor lists literals the item type cannot represent.
func badLiteralsFor(kind string) []badLiteral {
	wrongType := []badLiteral{}
	switch {
	case kind == model.L:
		return []badLiteral{{"5", "number directly inside a list"}, {"T", "boolean directly inside a list"}, {`"x"`, "string directly inside a list"}}
	case kind == model.A:
		return []badLiteral{{"128", "character code above 127"}, {"0x80", "character code above 127"}, {"255", "character code above 127"}, {"-1", "negative character code"},
			{"1.5", "fraction in a character code"}, {"1e2", "exponent in a character code"}, {"T", "boolean in an ASCII item"},
			{"\"café\"", "non-ASCII character in quotes"}, {"\"日本\"", "non-ASCII characters in quotes"}, {"\"a\xffb\"", "invalid UTF-8 in quotes"},
			{"99999999999999999999", "absurdly large character code"}}
	case kind == model.B:
		return []badLiteral{{"256", "byte above 255"}, {"0x100", "byte above 255"}, {"-1", "negative byte"}, {"1.5", "fraction in a binary item"}, {"1e2", "exponent in a binary item"},
			{"0b100000000", "byte above 255"}, {"T", "boolean in a binary item"}, {`"x"`, "string in a binary item"}, {"99999999999999999999999", "absurdly large byte"}, {"2.0", "fraction syntax in a binary item"}}
	case kind == model.BOOLEAN:
		return []badLiteral{{"1", "number in a boolean item"}, {"0", "number in a boolean item"}, {`"T"`, "string in a boolean item"}, {"1.0", "number in a boolean item"}}
	case kind == model.F4:
		return []badLiteral{{"1e39", "beyond the F4 range"}, {"-1e39", "beyond the F4 range"}, {"6.9e38", "beyond the F4 range"}, {"1e400", "beyond any float range"}, {"T", "boolean in a float item"}, {`"1.5"`, "string in a float item"},
			{"1e", "exponent without digits"}, {"1.5.2x", "malformed number"}}
	case kind == model.F8:
		return []badLiteral{{"1e309", "beyond the F8 range"}, {"-1.8e308", "beyond the F8 range"}, {"1e99999", "beyond any float range"}, {"T", "boolean in a float item"}, {`"1.5"`, "string in a float item"}, {"1e+", "exponent without digits"}}
	case model.IsSigned(kind):
		lo, hi := intRangeOf(kind)
		wrongType = []badLiteral{{"1.5", "fraction in an integer item"}, {"1e2", "exponent in an integer item"}, {"2.0", "fraction syntax in an integer item"}, {"T", "boolean in an integer item"}, {`"5"`, "string in an integer item"},
			{"99999999999999999999999999", "beyond every integer range"}, {"-99999999999999999999999999", "beyond every integer range"}}
		if kind != model.I8 {
			wrongType = append(wrongType, badLiteral{fmt.Sprint(hi + 1), "just above the range"}, badLiteral{fmt.Sprint(lo - 1), "just below the range"},
				badLiteral{fmt.Sprintf("0x%X", uint64(hi)+1), "just above the range (hex)"})
		} else {
			wrongType = append(wrongType, badLiteral{"9223372036854775808", "just above the range"}, badLiteral{"-9223372036854775809", "just below the range"}, badLiteral{"0x8000000000000000", "just above the range (hex)"})
		}
		return wrongType
	default:
		hi := uintMaxOf(kind)
		wrongType = []badLiteral{{"-1", "negative value in an unsigned item"}, {"-128", "negative value in an unsigned item"}, {"1.5", "fraction in an unsigned item"}, {"1e2", "exponent in an unsigned item"}, {"T", "boolean in an unsigned item"},
			{`"5"`, "string in an unsigned item"}, {"99999999999999999999999999", "beyond every integer range"}}
		if kind != model.U8 {
			wrongType = append(wrongType, badLiteral{fmt.Sprint(hi + 1), "just above the range"}, badLiteral{fmt.Sprintf("0x%X", hi+1), "just above the range (hex)"})
		} else {
			wrongType = append(wrongType, badLiteral{"18446744073709551616", "just above the range"}, badLiteral{"0x10000000000000000", "just above the range (hex)"})
		}
		return wrongType
	}
}

// dynamicBadLiteral draws an integer literal beyond the range of the item type at a random distance
// (so that a value that merely wraps around modulo 2^8, 2^16, ... lands on an innocent-looking one),
// spelled in a random base.
func dynamicBadLiteral(t *rapid.T, sp *rapidSpeller, kind string) (badLiteral, bool) {
	if kind != model.L && rapid.IntRange(0, 3).Draw(t, "malformedBase") == 3 {
		// a prefixed number holding a digit that its base does not have (or no digit at all): not a number of any type
		pre := rapid.SampledFrom([]string{"0b", "0B", "0o", "0O"}).Draw(t, "prefix")
		good, bad := "01", "23456789"
		if pre[1] == 'o' || pre[1] == 'O' {
			good, bad = "01234567", "89"
		}
		if rapid.IntRange(0, 7).Draw(t, "barePrefix") == 7 {
			pre = rapid.SampledFrom([]string{"0b", "0B", "0o", "0O", "0x", "0X"}).Draw(t, "bare")
			return badLiteral{Text: pre, Why: "a base prefix without digits"}, true
		}
		text := pre
		for i := rapid.IntRange(0, 6).Draw(t, "goodDigits"); i > 0; i-- {
			text += string(good[rapid.IntRange(0, len(good)-1).Draw(t, "gd")])
		}
		text += string(bad[rapid.IntRange(0, len(bad)-1).Draw(t, "bd")])
		for i := rapid.IntRange(0, 3).Draw(t, "moreDigits"); i > 0; i-- {
			text += string("0123456789"[rapid.IntRange(0, 9).Draw(t, "md")])
		}
		return badLiteral{Text: text, Why: "a digit that the base of the literal does not have"}, true
	}
	var hi uint64
	switch {
	case kind == model.A:
		hi = 127
	case kind == model.B:
		hi = 255
	case model.IsUnsigned(kind) && kind != model.U8:
		hi = uintMaxOf(kind)
	case model.IsSigned(kind) && kind != model.I8:
		_, h := intRangeOf(kind)
		hi = uint64(h)
	case kind == model.U8 || kind == model.I8:
		// 64-bit items: the excess is computed with math/big, so that literals just beyond 2^64 (20 decimal digits), around
		// the multiples of 2^64 and anywhere up to 25 digits are produced - values that a hand-written digit loop wraps
		top := new(big.Int).Lsh(big.NewInt(1), 64) // U8: first value beyond
		if kind == model.I8 {
			top = new(big.Int).Lsh(big.NewInt(1), 63)
		}
		v := new(big.Int)
		switch rapid.IntRange(0, 4).Draw(t, "beyond64Class") {
		case 0:
			v.Add(top, big.NewInt(int64(rapid.IntRange(0, 300).Draw(t, "smallExcess"))))
		case 1:
			// k * 2^64 + r, r small or just below 2^64: wraps to an innocent value
			v.Lsh(big.NewInt(int64(rapid.IntRange(1, 5).Draw(t, "wraps64"))), 64)
			r := new(big.Int).SetUint64(rapid.Uint64().Draw(t, "residue64"))
			switch rapid.IntRange(0, 2).Draw(t, "residueClass") {
			case 0:
				r.SetInt64(int64(rapid.IntRange(0, 1000).Draw(t, "lowResidue")))
			case 1:
				r.SetUint64(^uint64(0) - uint64(rapid.IntRange(0, 1000).Draw(t, "highResidue")))
			}
			v.Add(v, r)
			if v.Cmp(top) < 0 {
				v.Set(top)
			}
		case 2, 3:
			// any value between the limit and 10^20 (the 20-digit decimals), uniformly
			span := new(big.Int).Sub(new(big.Int).Exp(big.NewInt(10), big.NewInt(20), nil), top)
			f := new(big.Int).SetUint64(rapid.Uint64().Draw(t, "frac"))
			v.Mul(span, f).Rsh(v, 64).Add(v, top)
		default:
			v.Exp(big.NewInt(10), big.NewInt(int64(rapid.IntRange(20, 24).Draw(t, "digits"))), nil)
			v.Add(v, new(big.Int).SetUint64(rapid.Uint64().Draw(t, "tail")))
		}
		text := v.Text(10)
		switch rapid.IntRange(0, 5).Draw(t, "base64") {
		case 4:
			text = rapid.SampledFrom([]string{"0x", "0X"}).Draw(t, "hexPrefix") + v.Text(16)
		case 5:
			text = rapid.SampledFrom([]string{"0o", "0O"}).Draw(t, "octPrefix") + v.Text(8)
		}
		why := fmt.Sprintf("%s is beyond the range of %s", v.Text(10), kind)
		if kind == model.I8 && rapid.Bool().Draw(t, "negativeSide") {
			v.Add(v, big.NewInt(1))
			text = "-" + v.Text(10)
			why = fmt.Sprintf("-%s is beyond the range of %s", v.Text(10), kind)
		}
		return badLiteral{Text: text, Why: why}, true
	default:
		return badLiteral{}, false
	}
	var beyond uint64
	switch rapid.IntRange(0, 3).Draw(t, "beyondClass") {
	case 0:
		beyond = hi + 1 + uint64(rapid.IntRange(0, 300).Draw(t, "smallExcess"))
	case 1:
		// a multiple of the wrap-around modulus plus a small in-range value
		beyond = (hi+1)*uint64(rapid.IntRange(1, 1<<16).Draw(t, "wraps")) + uint64(rapid.IntRange(0, int(hi%1000)).Draw(t, "residue"))
		if kind == model.A {
			beyond = 256*uint64(rapid.IntRange(1, 1<<20).Draw(t, "wraps256")) + uint64(rapid.IntRange(0, 127).Draw(t, "lowByte"))
		}
	case 2:
		beyond = 1<<32 + uint64(rapid.IntRange(0, 200).Draw(t, "above32"))
		if beyond <= hi {
			beyond = hi + 1
		}
	default:
		beyond = hi + 1 + rapid.Uint64Range(0, 1<<40).Draw(t, "excess")
	}
	text := sp.spellUnsigned(beyond)
	why := fmt.Sprintf("%d is beyond the range of %s", beyond, kind)
	if model.IsSigned(kind) && rapid.Bool().Draw(t, "negativeSide") {
		text = "-" + sp.spellUnsigned(beyond+1)
		why = fmt.Sprintf("-%d is beyond the range of %s", beyond+1, kind)
	}
	return badLiteral{Text: text, Why: why}, true
}

// genSMLMessages draws 1..n messages with their tokens.
func genSMLMessages(t *rapid.T, n int, sp *rapidSpeller, opts treeOpts) ([]smlMsg, [][]model.Tok) {
	var msgs []smlMsg
	var toks [][]model.Tok
	for i := 0; i < n; i++ {
		h := genHdr(t, false)
		h.Session = -1
		nm := newNamer(true, true)
		var tree *model.Node
		if rapid.IntRange(0, 9).Draw(t, "noItem") < 9 {
			tree = genTree(t, opts, nm)
			numberEllipses(tree)
		}
		m := smlMsg{Hdr: h, Tree: tree}
		sh := smlHeader(h)
		if rapid.IntRange(0, 4).Draw(t, "omitDirection") == 4 {
			sh.Dir = ""
			m.NoDir = true
		}
		msgs = append(msgs, m)
		toks = append(toks, model.MessageTokens(sh, tree, sp))
	}
	return msgs, toks
}

func joinPlain(toks [][]model.Tok) string {
	var sb strings.Builder
	for _, tk := range toks {
		sb.WriteString(model.RenderPlain(tk))
	}
	return sb.String()
}

func genC05(t *rapid.T) c05Case {
	labels := map[string]bool{}
	sp := &rapidSpeller{t: t, sizes: rapid.Bool().Draw(t, "withSizes"), labels: labels}
	n := rapid.SampledFrom([]int{1, 1, 1, 2, 3}).Draw(t, "nmsgs")
	msgs, toks := genSMLMessages(t, n, sp, treeOpts{Vars: true, Ellipsis: true, Suffix: true, NoDeep: true, MaxDepth: 4, VarPct: 15})
	c := c05Case{Msgs: msgs, Toks: toks, Class: "accept"}
	if rapid.IntRange(0, 2).Draw(t, "injectBad") == 2 {
		// insert one literal its item type cannot represent
		mi := rapid.IntRange(0, n-1).Draw(t, "badMsg")
		var typeIdx []int
		for i, tk := range toks[mi] {
			if tk.Kind == "type" {
				typeIdx = append(typeIdx, i)
			}
		}
		if len(typeIdx) > 0 {
			ti := typeIdx[rapid.IntRange(0, len(typeIdx)-1).Draw(t, "badItem")]
			kind := strings.ToUpper(toks[mi][ti].Text)
			cands := badLiteralsFor(kind)
			bad := cands[rapid.IntRange(0, len(cands)-1).Draw(t, "badLit")]
			if dyn, ok := dynamicBadLiteral(t, sp, kind); ok && rapid.Bool().Draw(t, "dynamicBad") {
				bad = dyn
			}
			at := ti + 1
			if at < len(toks[mi]) && toks[mi][at].Kind == "size" {
				at++
			}
			// an ASCII variable cannot be combined with anything: also an error, fine; keep position right after type/size
			if kind == model.A && at < len(toks[mi]) && toks[mi][at].Text != ">" && rapid.IntRange(0, 3).Draw(t, "strayVariable") == 3 {
				// a variable in front of the literals (or of the variable) of an ASCII item: an ASCII item is either text or ONE
				// variable, so nothing written may be dropped or kept silently
				bad = badLiteral{Text: "stray_variable_9", Why: "a variable next to other values in an ASCII item"}
				labels["bad:stray-variable-in-ascii-item"] = true
			}
			if kind != model.A && rapid.IntRange(0, 7).Draw(t, "repeatedVariable") == 7 {
				// the same variable twice in one item (for a list: two item variables of one name): every name of a message is
				// unique, nothing written may be replaced by a default or dropped silently
				bad = badLiteral{Text: "dup_var_7 dup_var_7", Why: "the same variable twice in one item"}
				labels["bad:repeated-variable-in-one-item"] = true
			}
			nt := append([]model.Tok(nil), toks[mi][:at]...)
			nt = append(nt, model.Tok{Text: bad.Text, Kind: "num"})
			nt = append(nt, toks[mi][at:]...)
			c.Toks[mi] = nt
			c.Class = "reject"
			c.Bad = &bad
			labels["bad:"+kind] = true
		}
	}
	if c.Class == "accept" && rapid.IntRange(0, 7).Draw(t, "exoticBlank") == 7 {
		// one exotic blank right before a value token inside an item
		mi := rapid.IntRange(0, n-1).Draw(t, "wsMsg")
		var cand []int
		for i, tk := range c.Toks[mi] {
			if i > 0 && (tk.Kind == "num" || tk.Kind == "bool" || tk.Kind == "str" || tk.Kind == "var") && c.Toks[mi][i-1].Kind != "name" {
				cand = append(cand, i)
			}
		}
		if len(cand) > 0 {
			i := cand[rapid.IntRange(0, len(cand)-1).Draw(t, "wsAt")]
			ws := rapid.SampledFrom([]string{"\v", "\f", "\u00a0", "\u0085", "\u2028", "\u3000", "\u2003"}).Draw(t, "ws")
			nt := append([]model.Tok(nil), c.Toks[mi]...)
			nt[i] = model.Tok{Text: ws + nt[i].Text, Kind: nt[i].Kind}
			c.Toks[mi] = nt
			c.Class = "either"
			labels["class-either:exotic-blank"] = true
		}
	}
	if rapid.Bool().Draw(t, "freeLayout") {
		var all []model.Tok
		for _, tk := range c.Toks {
			all = append(all, tk...)
		}
		// for rejected texts every token keeps a separator (its role may depend on the lexer state)
		c.Text, _ = render(all, genLayout(t, all, true, c.Class == "reject"))
		labels["layout:free"] = true
	} else {
		c.Text = joinPlain(c.Toks)
	}
	for l := range labels {
		c.Labels = append(c.Labels, l)
	}
	sortStrings(c.Labels)
	return c
}

func sortStrings(s []string) {
	for i := 1; i < len(s); i++ {
		for j := i; j > 0 && s[j] < s[j-1]; j-- {
			s[j], s[j-1] = s[j-1], s[j]
		}
	}
}

func TestC05(t *testing.T) {
	rapidProp(t, "C05", "c05", genC05, checkC05)
}

// FuzzSML is the coverage-guided tier shared by C04/C05/C06: total parsing,
// all-or-nothing results, well-formed diagnostics and the print/parse fixed point.
func FuzzSML(f *testing.F) {
	for _, s := range []string{
		"S1F1 W\n.", "S1F2 H->E Name\n<L[2]\n <A \"x\">\n <U1 1 2 3>\n>\n.", "S6F11 [W] H<-E\n<L <A[1..3] v> ... >\n.",
		"S1F1 <B 0xFF 0b1 0o7>.", "S1F1 <F4 1.5e10 -0.25>.", "S1F1 <BOOLEAN T f x>.", "S1F1 // c\n<A 0x41 \"b\\c\">.",
		"S1F1 <L <I8 -9223372036854775808> <U8 18446744073709551615>>.", "S99999999999F1 .", "S1F1 <A[99999999999] x>.",
	} {
		f.Add(s)
	}
	f.Fuzz(func(t *testing.T, in string) {
		if len(in) > 1<<14 {
			return
		}
		if err := smlTotalityInProcess(in); err != nil {
			c := c06Case{Text: in, Origin: "fuzz"}
			p := writeReplay("C06", "c06", c, err)
			t.Fatalf("PROPERTY-VIOLATION property=C06 check=c06 replay=%s\n%v", p, err)
		}
	})
}
