package props

import (
	"fmt"
	"os"
	"regexp"
	"strconv"
	"strings"
	"testing"
	"time"
	"unicode/utf8"

	"verifharness/model"

	"github.com/wolimst/lib-secs2-hsms-go/pkg/ast"
	"github.com/wolimst/lib-secs2-hsms-go/pkg/parser/sml"
	"pgregory.net/rapid"
)

// C06 - the SML parser is total and all-or-nothing: no panic, hang or memory
// blow-up; errors suppress messages; diagnostics are well-formed.

type c06Case struct {
	Text    string         `json:"text,omitempty"`  // valid UTF-8 inputs
	Bytes   model.HexBytes `json:"bytes,omitempty"` // arbitrary bytes (used when Text is empty)
	Origin  string         `json:"origin"`
	Written [][2]int       `json:"written,omitempty"` // stream/function of every message, when the text was built valid
	// History: inputs parsed by the same worker process right before this one
	History []model.HexBytes `json:"history,omitempty"`
}

func (c c06Case) input() string {
	if c.Text != "" || len(c.Bytes) == 0 {
		return c.Text
	}
	return string(c.Bytes)
}

func mkC06(in string, origin string, written [][2]int) c06Case {
	if utf8.ValidString(in) {
		return c06Case{Text: in, Origin: origin, Written: written}
	}
	return c06Case{Bytes: []byte(in), Origin: origin, Written: written}
}

func init() { registerReplay("c06", checkC06) }

var reDiag = regexp.MustCompile(`(?s)^Ln (\d+), Col (\d+): .+`)
var reHasHeader = regexp.MustCompile(`[Ss]\d+[Ff]\d+`)

// checkDiagnostics verifies the "Ln x, Col y: text" format and that the
// position lies inside the input.
func checkDiagnostics(in string, kind string, diags []string) error {
	lines := strings.Split(in, "\n")
	for _, d := range diags {
		m := reDiag.FindStringSubmatch(d)
		if m == nil {
			return fmt.Errorf("%s %q does not read \"Ln x, Col y: text\"", kind, clipStr(d, 200))
		}
		ln, _ := strconv.Atoi(m[1])
		col, _ := strconv.Atoi(m[2])
		if ln < 1 || ln > len(lines) {
			return fmt.Errorf("%s %q: line %d is outside the input (%d lines)", kind, clipStr(d, 200), ln, len(lines))
		}
		if maxCol := utf8.RuneCountInString(lines[ln-1]) + 1; col < 1 || col > maxCol {
			return fmt.Errorf("%s %q: column %d is outside line %d (%d characters)", kind, clipStr(d, 200), col, ln, maxCol-1)
		}
	}
	return nil
}

func resultInvariants(in string, nmsgs int, errs, warns []string, written [][2]int, sf [][2]int) error {
	if len(errs) > 0 && nmsgs != 0 {
		return fmt.Errorf("%d error(s) reported together with %d message(s): %q", len(errs), nmsgs, clipStr(errs[0], 200))
	}
	if err := checkDiagnostics(in, "error", errs); err != nil {
		return err
	}
	if err := checkDiagnostics(in, "warning", warns); err != nil {
		return err
	}
	if written != nil && len(errs) == 0 {
		if len(sf) != len(written) {
			return fmt.Errorf("no error reported but %d of the %d written messages were returned", len(sf), len(written))
		}
		for i := range sf {
			if sf[i] != written[i] {
				return fmt.Errorf("message %d is S%dF%d, written S%dF%d (order / identity lost)", i+1, sf[i][0], sf[i][1], written[i][0], written[i][1])
			}
		}
	}
	return nil
}

// smlTotalityInProcess is the in-process variant (fuzz target, C04 fixed point).
func smlTotalityInProcess(in string) error {
	var msgs []*ast.DataMessage
	var errs, warns []string
	if p, pm := try(func() { msgs, errs, warns = sml.Parse(in) }); p {
		return fmt.Errorf("sml.Parse panicked: %s\ninput: %q", pm, clipStr(in, 300))
	}
	var sf [][2]int
	for _, m := range msgs {
		sf = append(sf, [2]int{m.StreamCode(), m.FunctionCode()})
	}
	if err := resultInvariants(in, len(msgs), errs, warns, nil, sf); err != nil {
		return fmt.Errorf("%v\ninput: %q", err, clipStr(in, 300))
	}
	for i, m := range msgs {
		if err := printParseFixedPoint(m); err != nil {
			return fmt.Errorf("message %d of an accepted text: %v\ninput: %q", i+1, err, clipStr(in, 300))
		}
	}
	return nil
}

const (
	c06FirstTimeout  = 20 * time.Second
	c06SecondTimeout = 60 * time.Second
)

func checkC06(c c06Case) (ci caseInfo, err error) {
	in := c.input()
	ci.Nontrivial = reHasHeader.MatchString(in)
	ci.label("origin:" + originClass(c.Origin))
	if len(in) > 64<<10 {
		return ci, fmt.Errorf("harness: input longer than 64 KiB")
	}
	for _, h := range c.History {
		if o, werr := pool.run("sml", h, c06FirstTimeout); werr != nil {
			return ci, fmt.Errorf("harness: cannot start worker: %v", werr)
		} else if o.Died || o.TimedOut {
			return ci, fmt.Errorf("sml.Parse died or hung (%s) on the history input %q", o.Fatal, clipStr(string(h), 200))
		}
	}
	before := pool.history("sml")
	out, werr := pool.run("sml", []byte(in), c06FirstTimeout)
	if werr != nil {
		return ci, fmt.Errorf("harness: cannot start worker: %v", werr)
	}
	if out.TimedOut {
		// second stage of the hang rule: after the same recent history, in a fresh worker with a larger budget
		out2, werr := runFreshAfter("sml", before, []byte(in), c06SecondTimeout)
		if werr != nil {
			return ci, fmt.Errorf("harness: cannot start worker: %v", werr)
		}
		if out2.TimedOut || out2.Died {
			alone, _ := runFresh("sml", []byte(in), c06SecondTimeout)
			if alone.TimedOut || alone.Died {
				return ci, fmt.Errorf("sml.Parse does not return within %v on a %d-byte input (hang): %q", c06SecondTimeout, len(in), clipStr(in, 300))
			}
			hist := c
			for _, h := range before {
				hist.History = append(hist.History, h)
			}
			err := fmt.Errorf("sml.Parse does not return within %v on %q when it is parsed after the %d inputs the same process parsed before (alone it returns): state is carried between calls", c06SecondTimeout, clipStr(in, 200), len(before))
			p := writeReplay("C06", "c06", hist, err)
			return ci, fmt.Errorf("%v\n(the case with its history is stored in %s)", err, p)
		}
		stats.exclude("inconclusive-first-watchdog-expired")
		stats.note("first watchdog expired but the input finished alone in a fresh worker: %q", clipStr(in, 120))
		out = out2
	}
	if out.Died {
		ci.label("outcome:process-death")
		return ci, fmt.Errorf("sml.Parse aborted the process (%s) on a %d-byte input %q\n%s", out.Fatal, len(in), clipStr(in, 300), out.Stderr)
	}
	r := out.Reply
	if r.Panic != "" {
		return ci, fmt.Errorf("a panic escaped sml.Parse: %s\ninput: %q", r.Panic, clipStr(in, 300))
	}
	if len(r.Errors) > 0 {
		ci.label("outcome:errors")
	} else {
		ci.label("outcome:accepted")
	}
	if err := resultInvariants(in, r.Msgs, r.Errors, r.Warnings, c.Written, r.SF); err != nil {
		return ci, fmt.Errorf("%v\ninput: %q", err, clipStr(in, 400))
	}
	return ci, nil
}

// ---------------------------------------------------------------------------
// generators

var uniSpaces = []string{"\v", "\f", "\u0085", "\u00a0", "\u1680", "\u2000", "\u2003", "\u200a", "\u2028", "\u2029", "\u202f", "\u205f", "\u3000"}

var soupVocabulary = []string{
	"S1F1", "s0f0", "S127F255", "S128F1", "S1F256", "S99999999999999999999F1", "S1F99999999999999999999", "S01F001", "SF", "S1", "S1F",
	"W", "[W]", "w", "[w]", "[W", "H->E", "H<-E", "H<->E", "h->e", "H-E", "Name", "名前", "n//c", "W1", "Wx",
	"<", ">", ".", "..", "...", "...[1]", "...[99999999999999999999]", "....",
	"L", "A", "B", "BOOLEAN", "F4", "F8", "I1", "I2", "I4", "I8", "U1", "U2", "U4", "U8", "boolean", "u8", "J1", "F2",
	"[2]", "[0]", "[1..3]", "[..2]", "[3..]", "[3..1]", "[ 2 ]", "[2..", "[", "]", "[]", "[..]", "[99999999999999999999]", "[999999999]", "[0..99999999999999999999]", "[99999999999999999999..]", "[16777216]", "[-1]", "[1.5]",
	"0", "1", "7", "127", "128", "255", "256", "-1", "-128", "-129", "+5", "0x7F", "0xFF", "0x", "0b101", "0b", "0o17", "017", "1.5", "-0.5", ".5", "5.", "1e10", "1e-10", "1E+5", "1e400", "1e", "1e+",
	"99999999999999999999999", "-99999999999999999999999", "1.7976931348623157e308", "3.5e38", "0x10000000000000000", "1_000", "1x", "12ab",
	"T", "F", "t", "f", "x", "var1", "x[0]", "x[0][1]", "_", "x[", "x[]", "x[99999999999999999999]", "T1", "Fx",
	"\"abc\"", "\"\"", "\" \"", "\"a//b\"", "\"<>.\"", "\"\\\"", "\"\\n\"", "\"é\"", "\"日本\"", "\"unclosed", "\"two\nlines\"", "\"\xff\"", "\"", "'", "\\", "//", "// comment", "// comment\n", "//\n", "/", "/x",
	"\n", "\r\n", "\r", "\t", " ", "  ", "\x00", "\xff", "\xc3", "é", "😀", "\ufeff",
	"[//", "[ // x", "[2 //", "[2.. // c", "<L>[//", "<L> [ // c", "<A[2 // x",
	"<A x", "<A x>", "<L <A x> <A x", "<L <U1 x> <A x", "<A[2] x", "<L x <A x", "<A x $", "<A x \"",
	"<L <A x> <A[99999999999] x>>", "<A[99999999999] y> <A y>", "<L x x>", "<U1 v v>", "<L <U1 q> <I1 q>>", "<A[5] \"abc\">", "<A[2..3] z>", "<L[1] <L[1] <L[1] <B 1>>>>",
}

func genSoup(t *rapid.T) string {
	n := rapid.IntRange(1, 40).Draw(t, "soupLen")
	var sb strings.Builder
	if rapid.IntRange(0, 3).Draw(t, "startWithHeader") > 0 {
		if rapid.IntRange(0, 2).Draw(t, "numericHeader") == 2 {
			// stream / function numbers at and beyond their ranges, with every wait-bit spelling
			num := func() string {
				return rapid.SampledFrom([]string{"0", "1", "2", "127", "128", "129", "255", "256", "257", "65535", "65537", "4294967297", "9223372036854775807", "9223372036854775808", "99999999999999999999", "99999999999999999998"}).Draw(t, "hdrNum")
			}
			sb.WriteString("S" + num() + "F" + num() + rapid.SampledFrom([]string{"", " W", " [W]", " w", " W H->E", " W H<-E name", " [W] H<->E"}).Draw(t, "hdrWait"))
			if rapid.Bool().Draw(t, "completeAtOnce") {
				sb.WriteString(rapid.SampledFrom([]string{" .", "\n.", " <L> .", "\n<U1 1>\n."}).Draw(t, "hdrBody"))
			}
		} else {
			sb.WriteString(rapid.SampledFrom([]string{"S1F1", "S1F1 W", "S2F2 H->E nm", "s3f5 [W]"}).Draw(t, "hdr"))
		}
		sb.WriteString(rapid.SampledFrom([]string{" ", "\n", "", "\t"}).Draw(t, "hsep"))
	}
	for i := 0; i < n; i++ {
		k := rapid.IntRange(0, 19).Draw(t, "fragKind")
		switch {
		case k == 19:
			sb.WriteString(rapid.SampledFrom(uniSpaces).Draw(t, "uspace"))
		case k == 17:
			// an unfinished or odd number directly followed by a character of several bytes (or a lone continuation byte):
			// whatever the number scanner gives back or skips, it must do so by whole characters
			sb.WriteString(rapid.SampledFrom([]string{"1e", "-5e", ".5e", "-e", "+e", "1e+", "1E-", "0x", "0b", "0o", "1.", "-.", ".", "-", "+", "12", "0b1", "0x1F", "5.e", "1e1", "T", "x", "\"s\"", "[2", "[2..", "..."}).Draw(t, "oddNumber"))
			sb.WriteString(rapid.SampledFrom([]string{"世", "\u3000", "\u00a0", "\u2028", "😀", "é", "\u0085", "\ufeff", "\x80", "\xe4\xb8", "\U0010FFFF"}).Draw(t, "wideFollower"))
		case k == 18:
			// a number with many digits in some position
			sb.WriteString(strings.Repeat(rapid.SampledFrom([]string{"9", "1", "0"}).Draw(t, "digit"), rapid.IntRange(1, 40).Draw(t, "ndigits")))
		default:
			sb.WriteString(soupVocabulary[rapid.IntRange(0, len(soupVocabulary)-1).Draw(t, "frag")])
		}
		sb.WriteString(rapid.SampledFrom([]string{" ", " ", " ", "", "\n", "\t"}).Draw(t, "sep"))
	}
	return sb.String()
}

func genNesting(t *rapid.T) string {
	maxd := 300
	if isThorough() {
		maxd = 2000
	}
	d := rapid.IntRange(1, maxd).Draw(t, "depth")
	closeN := d - rapid.SampledFrom([]int{0, 0, 0, 1, 2}).Draw(t, "missingClose")
	if closeN < 0 {
		closeN = 0
	}
	stats.labelOnly("nesting-generated", 1)
	if d == maxd {
		stats.exclude("nesting-depth-cap-binds")
	}
	return "S1F1\n" + strings.Repeat("<L ", d) + rapid.SampledFrom([]string{"", "<U1 1>", "x", "...", "\"s\""}).Draw(t, "core") + strings.Repeat(">", closeN) + "\n."
}

// mutateText applies one text-level mutation to a valid text.
func mutateText(t *rapid.T, toks []model.Tok, ls layoutSpec) string {
	ls.Inner = nil // token indices shift under the mutations below
	switch rapid.IntRange(0, 7).Draw(t, "mutation") {
	case 6, 7: // the text ends early: after a random token (inside an item of whatever type), possibly followed by blanks or a comment
		i := rapid.IntRange(1, len(toks)).Draw(t, "cutAfter")
		s, _ := render(toks[:i], layoutSpec{Seps: ls.Seps, Comments: ls.Comments, Glue: ls.Glue})
		if j := strings.LastIndex(s, toks[i-1].Text); j >= 0 {
			s = s[:j+len(toks[i-1].Text)]
		}
		return s + rapid.SampledFrom([]string{"", "", " ", "\n", " // c", "\t\n ", "\r\n", " //"}).Draw(t, "cutTail")
	case 0: // delete a token
		i := rapid.IntRange(0, len(toks)-1).Draw(t, "at")
		nt := append(append([]model.Tok(nil), toks[:i]...), toks[i+1:]...)
		s, _ := render(nt, layoutSpec{Seps: dropAt(ls.Seps, i), Comments: dropAt(ls.Comments, i)})
		return s
	case 1: // duplicate a token
		i := rapid.IntRange(0, len(toks)-1).Draw(t, "at")
		nt := append(append(append([]model.Tok(nil), toks[:i+1]...), toks[i]), toks[i+1:]...)
		s, _ := render(nt, layoutSpec{Seps: dupAt(ls.Seps, i), Comments: dupAt(ls.Comments, i)})
		return s
	case 2: // replace a token by a vocabulary fragment
		i := rapid.IntRange(0, len(toks)-1).Draw(t, "at")
		nt := append([]model.Tok(nil), toks...)
		nt[i] = model.Tok{Text: soupVocabulary[rapid.IntRange(0, len(soupVocabulary)-1).Draw(t, "frag")], Kind: nt[i].Kind}
		s, _ := render(nt, ls)
		return s
	default: // byte-level: delete / replace / insert one byte
		s, _ := render(toks, ls)
		if len(s) == 0 {
			return s
		}
		i := rapid.IntRange(0, len(s)-1).Draw(t, "byteAt")
		b := byte(rapid.SampledFrom([]int{0, '"', '<', '>', '.', '[', ']', '/', '\n', ' ', 0x80, 0xA0, 0xFF, '9', 'x', '-'}).Draw(t, "byte"))
		switch rapid.IntRange(0, 2).Draw(t, "byteOp") {
		case 0:
			return s[:i] + s[i+1:]
		case 1:
			return s[:i] + string([]byte{b}) + s[i+1:]
		}
		return s[:i] + string([]byte{b}) + s[i:]
	}
}

func dropAt(s []string, i int) []string {
	if i >= len(s) {
		return s
	}
	return append(append([]string(nil), s[:i]...), s[i+1:]...)
}

func dupAt(s []string, i int) []string {
	if i >= len(s) {
		return s
	}
	return append(append(append([]string(nil), s[:i+1]...), s[i]), s[i+1:]...)
}

// hostileTails are fragments that leave the lexer in the middle of something when the input ends right behind them.
var hostileTails = []string{"[]", "[..]", "[ ]", "[x]", "[-3]", "[1..2]", "[3]", "\"", "\"abc", "\"\"", "\"a\"", "[", "[2", "[2..", "[2..3", "[ ", "<", "<A", "<A \"", "<A \"x", "<L", "<L <", "//", "/", "// c", ".", "..", "...", "...[", "...[1",
	"-", "+", "0x", "0b", "1e", "1e+", "1.", "\\", "\xc3", "\xe4\xb8", "\x00", "S", "S1", "S1F", "S1F1", "S1F1 W", "S1F1 [W", "S1F1 H-", "S1F1 H<-", "S1F1 H->E", "W", "[W", "x", "x[", "x[1", "T", "é", ">"}

// genHostileTail renders valid messages, ends the text right behind some token - with raised weight behind a closing
// bracket or a terminator, i.e. between items / messages - and appends one fragment that is the very end of the input.
func genHostileTail(t *rapid.T) string {
	sp := &rapidSpeller{t: t, sizes: rapid.Bool().Draw(t, "withSizes")}
	n := rapid.IntRange(1, 2).Draw(t, "nmsgs")
	_, toks := genSMLMessages(t, n, sp, treeOpts{Vars: true, Ellipsis: true, Suffix: true, NoDeep: true, MaxDepth: 3})
	var all []model.Tok
	for i := range toks {
		all = append(all, toks[i]...)
	}
	ls := genLayout(t, all, true, false, true)
	ls.Inner = nil
	cut := rapid.IntRange(1, len(all)).Draw(t, "cutAfter")
	if want := rapid.SampledFrom([]string{"", ">", ">", "."}).Draw(t, "cutBehind"); want != "" {
		var at []int
		for i, tk := range all {
			if tk.Text == want {
				at = append(at, i+1)
			}
		}
		if len(at) > 0 {
			// the last ones are the top-level bracket of the last message and its terminator
			k := rapid.IntRange(0, len(at)-1).Draw(t, "which")
			if rapid.Bool().Draw(t, "lastOne") {
				k = len(at) - 1
			}
			cut = at[k]
		}
	}
	s, _ := render(all[:cut], layoutSpec{Seps: ls.Seps, Comments: ls.Comments, Glue: ls.Glue})
	if j := strings.LastIndex(s, all[cut-1].Text); j >= 0 {
		s = s[:j+len(all[cut-1].Text)]
	}
	return s + rapid.SampledFrom([]string{"", " ", " ", "\n", "\t", "\r\n"}).Draw(t, "tailSep") + rapid.SampledFrom(hostileTails).Draw(t, "hostileTail")
}

func genC06(t *rapid.T) c06Case {
	switch rapid.IntRange(0, 9).Draw(t, "class") {
	case 3:
		return mkC06(genHostileTail(t), "hostile-tail", nil)
	case 0, 1, 2:
		return mkC06(genSoup(t), "soup", nil)
	case 4:
		return mkC06(genNesting(t), "nesting", nil)
	case 5:
		return mkC06(string(rapid.SliceOfN(rapid.Byte(), 0, 200).Draw(t, "bytes")), "random-bytes", nil)
	case 6, 7:
		// a valid text under a random layout: must be returned completely and in order
		sp := &rapidSpeller{t: t, sizes: rapid.Bool().Draw(t, "withSizes")}
		n := rapid.IntRange(1, 4).Draw(t, "nmsgs")
		msgs, toks := genSMLMessages(t, n, sp, treeOpts{Vars: true, Ellipsis: true, Suffix: true, NoDeep: true, MaxDepth: 4})
		var all []model.Tok
		var written [][2]int
		for i := range msgs {
			all = append(all, toks[i]...)
			written = append(written, [2]int{msgs[i].Hdr.Stream, msgs[i].Hdr.Function})
		}
		s, _ := render(all, genLayout(t, all, true, false, true))
		return mkC06(s, "valid-text", written)
	default:
		sp := &rapidSpeller{t: t, sizes: rapid.Bool().Draw(t, "withSizes")}
		n := rapid.IntRange(1, 3).Draw(t, "nmsgs")
		_, toks := genSMLMessages(t, n, sp, treeOpts{Vars: true, Ellipsis: true, Suffix: true, NoDeep: true, MaxDepth: 4})
		var all []model.Tok
		for i := range toks {
			all = append(all, toks[i]...)
		}
		return mkC06(mutateText(t, all, genLayout(t, all, true, false, true)), "mutated-valid-text", nil)
	}
}

func TestC06(t *testing.T) {
	rapidProp(t, "C06", "c06", genC06, checkC06)
	if n := stats.Excluded["inconclusive-first-watchdog-expired"]; n > 0 {
		fmt.Fprintf(os.Stderr, "note: %d inputs needed the second watchdog stage\n", n)
	}
}

// TestC06Known reproduces the open known finding of C06 (unbounded recursion of the SML parser) in an
// isolated worker and prints a KNOWN-FINDING-REPRODUCED line when it still fails.
func TestC06Known(t *testing.T) {
	raw, _ := os.ReadFile(os.Getenv("VERIF_ROOT") + "/KNOWN_FINDINGS.txt")
	if !strings.Contains(string(raw), "key=sml-nesting-stack-overflow") {
		t.Skip("no open finding listed")
	}
	// quick: the same recursion under a 32 MB goroutine stack limit (60 000 levels, 240 KB of text);
	// thorough: the real thing, 700 000 levels (2.1 MB) under Go's default 1 GB limit
	levels, env, budget := 60000, []string{"VERIF_MAXSTACK=33554432"}, 5*time.Minute
	how := "60000 nested '<L' under a 32 MB goroutine stack limit"
	if isThorough() {
		levels, env, budget = 700000, nil, 20*time.Minute
		how = "700000 nested '<L' (2.1 MB of text) under Go's default 1 GB stack limit"
	}
	in := "S1F1 H->E deep\n" + strings.Repeat("<L\n", levels)
	out, werr := runFresh("sml", []byte(in), budget, env...)
	stats.record([]byte("known-sml-nesting"), &caseInfo{Nontrivial: true, Labels: []string{"known-finding-reproduction"}}, func() interface{} {
		return map[string]interface{}{"text": "S1F1 H->E deep\n + '<L\n' x " + fmt.Sprint(levels), "env": env}
	})
	switch {
	case werr != nil:
		t.Fatalf("harness: %v", werr)
	case out.Died && out.Fatal == "stack overflow":
		fmt.Printf("KNOWN-FINDING-REPRODUCED property=C06 key=sml-nesting-stack-overflow sml.Parse: list nesting recursion is unbounded - %s abort the process with a fatal stack overflow (about 664000 levels suffice under the default limit)\n", how)
	case out.Died:
		err := fmt.Errorf("sml.Parse aborted the process (%s) on the deep-nesting input\n%s", out.Fatal, out.Stderr)
		c := mkC06(in[:200], "known-finding-deep-nesting(truncated)", nil)
		t.Fatalf("PROPERTY-VIOLATION property=C06 check=c06 replay=%s\n%v", writeReplay("C06", "c06", c, err), err)
	case out.TimedOut:
		fmt.Println("NOTE deep-nesting reproduction timed out (inconclusive)")
	default:
		fmt.Println("NOTE known finding sml-nesting-stack-overflow no longer reproduces (fixed?)")
	}
}
