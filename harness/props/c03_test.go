package props

import (
	"bytes"
	"fmt"
	"testing"

	"verifharness/model"

	"github.com/wolimst/lib-secs2-hsms-go/pkg/ast"
	"github.com/wolimst/lib-secs2-hsms-go/pkg/parser/hsms"
	"pgregory.net/rapid"
)

// C03 - the HSMS decoder accepts exactly the well-formed messages and decodes
// them exactly: differential against the strict reference decoder over valid
// encodings, non-minimal re-encodings and an aimed single-fault catalogue.

type c03Input struct {
	Bytes  model.HexBytes `json:"bytes"`
	Origin string         `json:"origin"`
}

func init() { registerReplay("c03", checkC03) }

func checkC03(c c03Input) (ci caseInfo, err error) {
	in := []byte(c.Bytes)
	return differentialDecode(in, c.Origin)
}

func differentialDecode(in []byte, origin string) (ci caseInfo, err error) {
	ref := model.RefDecode(in)
	// The input is presented twice: in a buffer of exactly its length, and as the
	// prefix of a larger buffer whose spare capacity holds plausible item bytes
	// (what a caller reading from a socket into a reusable buffer passes).
	exact := make([]byte, len(in))
	copy(exact, in)
	slackBuf := make([]byte, len(in)+24)
	copy(slackBuf, in)
	for i := len(in); i < len(slackBuf); i++ {
		slackBuf[i] = []byte{0x41, 0x01, 0x61, 0x00}[i%4]
	}
	given := slackBuf[:len(in)]
	var msg, msgExact ast.HSMSMessage
	var ok, okExact bool
	if p, text := try(func() { msg, ok = hsms.Parse(given) }); p {
		return ci, fmt.Errorf("hsms.Parse panicked (%s) on %s [%s]", text, hexPrefix(in, 48), origin)
	}
	if p, text := try(func() { msgExact, okExact = hsms.Parse(exact) }); p {
		return ci, fmt.Errorf("hsms.Parse panicked (%s) on %s [%s]", text, hexPrefix(in, 48), origin)
	}
	if !bytes.Equal(given, in) || !bytes.Equal(exact, in) {
		return ci, fmt.Errorf("hsms.Parse modified its input buffer [%s]", origin)
	}
	// the caller re-uses its buffers: the returned messages must not point into them
	for i := range slackBuf {
		slackBuf[i] ^= 0x5A
	}
	for i := range exact {
		exact[i] ^= 0xA5
	}
	if ok != okExact {
		return ci, fmt.Errorf("the verdict depends on the spare capacity of the input slice: ok=%v with spare capacity, ok=%v without, input %s [%s]", ok, okExact, hexPrefix(in, 64), origin)
	}
	if ok && !bytes.Equal(msg.ToBytes(), msgExact.ToBytes()) {
		return ci, fmt.Errorf("the decoded message depends on the caller's buffer (spare capacity, or the buffer being overwritten after the call): %s vs %s for input %s [%s]",
			hexPrefix(msg.ToBytes(), 40), hexPrefix(msgExact.ToBytes(), 40), hexPrefix(in, 64), origin)
	}
	outerOK := len(in) >= 14 && ref.Reason != "outer-length-mismatch"
	var canon []byte
	if ref.OK {
		canon, _, _ = model.RefEncodeMsg(ref.Msg, nil)
		if ref.Msg.Control {
			canon = canon[:14]
		}
	}
	ci.Nontrivial = outerOK && !(ref.OK && bytes.Equal(canon, in))
	if ref.OK {
		ci.label("ref:accept")
		if !bytes.Equal(canon, in) {
			ci.label("ref:accept-noncanonical")
		}
	} else {
		ci.label("ref:reject:" + ref.Reason)
	}
	if o := originClass(origin); o != "" {
		ci.label("origin:" + o)
	}

	if ref.ControlWithText {
		// outside the accept rule of the property and contradicting its re-encoding rule: either outcome,
		// but an accepted message must at least be the control message of the header
		ci.label("tolerated:control-with-text")
		if ok {
			if msg.Type() != model.ControlTypeName(in[8], in[9]) || !bytes.Equal(msg.ToBytes(), canon) {
				return ci, fmt.Errorf("control message with trailing text accepted as %q with bytes %x, header says %x [%s]", msg.Type(), msg.ToBytes(), in[4:14], origin)
			}
		}
		return ci, nil
	}
	if ref.OK != ok {
		if ref.OK {
			return ci, fmt.Errorf("well-formed message rejected: %s [%s]", hexPrefix(in, 64), origin)
		}
		got := "?"
		if msg != nil {
			got = fmt.Sprintf("%s / re-encodes to %s", msg.Type(), hexPrefix(msg.ToBytes(), 48))
		}
		return ci, fmt.Errorf("malformed input accepted (reference: %s): %s -> %s [%s]", ref.Reason, hexPrefix(in, 64), got, origin)
	}
	if !ok {
		return ci, nil
	}
	if ref.Msg.Control {
		if msg.Type() != model.ControlTypeName(in[8], in[9]) {
			return ci, fmt.Errorf("control message type %q, want %q", msg.Type(), model.ControlTypeName(in[8], in[9]))
		}
		if !bytes.Equal(msg.ToBytes(), canon) {
			return ci, fmt.Errorf("control message re-encodes to %x, want %x", msg.ToBytes(), canon)
		}
		return ci, nil
	}
	dm, isData := msg.(*ast.DataMessage)
	if !isData || msg.Type() != "data message" {
		return ci, fmt.Errorf("SType 0 decoded to %T / %q", msg, msg.Type())
	}
	m := ref.Msg
	wait := "false"
	if m.Wait {
		wait = "true"
	}
	if dm.StreamCode() != m.Stream || dm.FunctionCode() != m.Function || dm.WaitBit() != wait || dm.SessionID() != m.Session || !bytes.Equal(dm.SystemBytes(), m.System[:]) {
		return ci, fmt.Errorf("decoded header S%dF%d wait=%s session=%d system=%x, reference S%dF%d wait=%s session=%d system=%x [%s]",
			dm.StreamCode(), dm.FunctionCode(), dm.WaitBit(), dm.SessionID(), dm.SystemBytes(), m.Stream, m.Function, wait, m.Session, m.System, origin)
	}
	if got := dm.ToBytes(); !bytes.Equal(got, canon) {
		return ci, fmt.Errorf("accepted message does not denote its bytes: input %s re-encodes with %s [%s]", hexPrefix(in, 48), firstDiff(got, canon), origin)
	}
	return ci, nil
}

func originClass(o string) string {
	for i := 0; i < len(o); i++ {
		if o[i] == ':' || o[i] == '@' {
			return o[:i]
		}
	}
	return o
}

// ---------------------------------------------------------------------------

type c03Base struct {
	Msg  model.Msg `json:"msg"`
	NLB  []int     `json:"nlb,omitempty"`
	True []byte    `json:"true,omitempty"`
	Junk uint64    `json:"junk"`
}

func patchLen(b []byte) []byte {
	out := append([]byte(nil), b...)
	if len(out) >= 4 {
		n := len(out) - 4
		out[0], out[1], out[2], out[3] = byte(n>>24), byte(n>>16), byte(n>>8), byte(n)
	}
	return out
}

// faultCatalogue lists every single-point corruption of one encoding.
func faultCatalogue(enc []byte, spans []model.Span, junk uint64, emit func(b []byte, origin string)) {
	n := len(enc)
	// truncation points: all when short, else around every span border plus a stride
	points := map[int]bool{}
	if n <= 96 {
		for k := 0; k < n; k++ {
			points[k] = true
		}
	} else {
		for _, s := range spans {
			for _, k := range []int{s.Off - 1, s.Off, s.Off + 1, s.Off + s.Len - 1, s.Off + s.Len} {
				if k >= 0 && k < n {
					points[k] = true
				}
			}
		}
		for k := 0; k < n; k += n/24 + 1 {
			points[k] = true
		}
	}
	for k := range points {
		emit(append([]byte(nil), enc[:k]...), fmt.Sprintf("truncate@%d", k))
		if k >= 4 {
			emit(patchLen(enc[:k]), fmt.Sprintf("truncate-patched@%d", k))
		}
	}
	// appended bytes
	for i, tail := range [][]byte{{0}, {1, 0}, {0x41, 0x01, 0x41}, {byte(junk), byte(junk >> 8), byte(junk >> 16)}, {0x01, 0x00}, {0xFF}} {
		ext := append(append([]byte(nil), enc...), tail...)
		emit(ext, fmt.Sprintf("append:%d", i))
		emit(patchLen(ext), fmt.Sprintf("append-patched:%d", i))
	}
	// frame and header bytes
	for i := 0; i < 14 && i < n; i++ {
		for _, v := range []int{0, 1, 0x7F, 0x80, 0xFF, int(enc[i]) + 1, int(enc[i]) - 1, int(enc[i]) ^ 0x80, int(enc[i]) ^ 1} {
			if byte(v) == enc[i] {
				continue
			}
			m := append([]byte(nil), enc...)
			m[i] = byte(v)
			emit(m, fmt.Sprintf("header-byte@%d", i))
		}
	}
	nodes := 0
	for _, s := range spans {
		switch s.Role {
		case "format":
			nodes++
			if nodes > 10 {
				continue
			}
			fb := enc[s.Off]
			for code := 0; code < 64; code++ {
				if byte(code) == fb>>2 {
					continue
				}
				m := append([]byte(nil), enc...)
				m[s.Off] = byte(code<<2) | fb&3
				emit(m, fmt.Sprintf("format-code@%d", s.Off))
			}
			for nlb := 0; nlb < 4; nlb++ {
				if byte(nlb) == fb&3 {
					continue
				}
				m := append([]byte(nil), enc...)
				m[s.Off] = fb&^3 | byte(nlb)
				emit(m, fmt.Sprintf("format-nlb@%d", s.Off))
			}
		case "length":
			if nodes > 10 {
				continue
			}
			for i := 0; i < s.Len; i++ {
				o := s.Off + i
				for _, v := range []int{int(enc[o]) + 1, int(enc[o]) - 1, 0, 0xFF, int(enc[o]) + 2, int(enc[o]) ^ 0x80} {
					if byte(v) == enc[o] {
						continue
					}
					m := append([]byte(nil), enc...)
					m[o] = byte(v)
					emit(m, fmt.Sprintf("length-byte@%d", o))
				}
			}
		case "payload":
			o := s.Off + int(junk%uint64(s.Len))
			switch s.Kind {
			case model.A:
				for _, v := range []byte{0x80, 0xFF, 0xC3} {
					m := append([]byte(nil), enc...)
					m[o] = v
					emit(m, fmt.Sprintf("ascii-highbit@%d", o))
				}
				// well-formed multi-byte characters (2, 3 and 4 bytes), also ones whose code point has clear low bits
				for _, seq := range [][]byte{{0xC4, 0x80}, {0xC5, 0x81}, {0xC3, 0xA9}, {0xE4, 0xB8, 0x80}, {0xE2, 0x82, 0xAC}, {0xF0, 0x90, 0x80, 0x80}} {
					if s.Len >= len(seq) {
						at := s.Off + int(junk%uint64(s.Len-len(seq)+1))
						m := append([]byte(nil), enc...)
						copy(m[at:], seq)
						emit(m, fmt.Sprintf("ascii-multibyte@%d", at))
					}
				}
			case model.F4, model.F8:
				w := model.Width(s.Kind)
				e := s.Off + (o-s.Off)/w*w
				for _, pat := range [][]byte{{0x7F, 0xF0}, {0xFF, 0xF0}, {0x7F, 0xF8}, {0x7F, 0x80}, {0xFF, 0x80}, {0x7F, 0xC0}, {0x7F, 0xFF}} {
					m := append([]byte(nil), enc...)
					for i := 0; i < w; i++ {
						m[e+i] = 0
					}
					m[e], m[e+1] = pat[0], pat[1]
					emit(m, fmt.Sprintf("float-nonfinite@%d", e))
					m2 := append([]byte(nil), m...)
					m2[e+w-1] = 1 // NaN payload in the last byte
					emit(m2, fmt.Sprintf("float-nan@%d", e))
				}
			case model.BOOLEAN:
				m := append([]byte(nil), enc...)
				m[o] = byte(junk>>8) | 2
				emit(m, fmt.Sprintf("bool-nonzero@%d", o))
			default:
				m := append([]byte(nil), enc...)
				m[o] ^= byte(junk>>16) | 1
				emit(m, fmt.Sprintf("payload-flip@%d", o))
			}
		}
	}
}

func genC03Base(t *rapid.T) c03Base {
	var b c03Base
	b.Junk = rapid.Uint64().Draw(t, "junk")
	if rapid.IntRange(0, 7).Draw(t, "control") == 7 {
		hdr := make([]byte, 10)
		for i := range hdr {
			hdr[i] = rapid.Byte().Draw(t, "hb")
		}
		hdr[4] = 0
		hdr[5] = rapid.SampledFrom([]byte{1, 2, 3, 4, 5, 6, 7, 9}).Draw(t, "stype")
		b.Msg = model.Msg{Control: true, Header: hdr}
		return b
	}
	h := genHdr(t, true)
	tree := genTree(t, treeOpts{MaxDepth: 4, MaxElems: 4, ASCIIMax: 6, NoDeep: true, Bulk: rapid.IntRange(0, 9).Draw(t, "allowBulk") == 9}, newNamer(false, false))
	if rapid.IntRange(0, 20).Draw(t, "emptyText") == 20 {
		tree = nil
	}
	b.Msg = *modelMsg(h, tree)
	if rapid.Bool().Draw(t, "nonMinimal") {
		b.NLB = rapid.SliceOfN(rapid.IntRange(0, 3), 1, 12).Draw(t, "nlb")
	}
	if rapid.Bool().Draw(t, "oddTrue") {
		b.True = rapid.SliceOfN(rapid.Byte(), 1, 4).Draw(t, "trueBytes")
	}
	return b
}

func TestC03(t *testing.T) {
	rapid.Check(t, func(rt *rapid.T) {
		b := genC03Base(rt)
		var opts *model.EncOpts
		if b.NLB != nil || b.True != nil {
			opts = &model.EncOpts{NLB: b.NLB, TrueByte: b.True}
		}
		enc, spans, err := model.RefEncodeMsg(&b.Msg, opts)
		if err != nil {
			rt.Fatalf("harness: reference encoder: %v", err)
		}
		run := func(in []byte, origin string) {
			runCase[c03Input](rt, "C03", "c03", checkC03, c03Input{Bytes: in, Origin: origin})
		}
		if opts == nil {
			run(enc, "canonical")
		} else {
			run(enc, "reencoded")
		}
		if len(enc) > 70000 {
			return // bulk messages: only the encodings themselves (the catalogue is aimed at small ones)
		}
		faultCatalogue(enc, spans, b.Junk, run)
		// after all those damaged frames the undamaged one still decodes as before (nothing is carried over
		// from one Parse call to the next)
		run(enc, "again-after-faults")
	})
}

// TestC03Unstructured feeds unstructured bytes, with and without a correct
// outer length / plausible header.
func TestC03Unstructured(t *testing.T) {
	rapid.Check(t, func(rt *rapid.T) {
		body := rapid.SliceOfN(rapid.Byte(), 0, 60).Draw(rt, "body")
		var in []byte
		origin := "random"
		switch rapid.IntRange(0, 3).Draw(rt, "frame") {
		case 0:
			in = body
		case 1:
			in = patchLen(append([]byte{0, 0, 0, 0}, body...))
			origin = "random-framed"
		default:
			// valid data header, then an "item soup" of format bytes with small lengths
			hdr := []byte{0, 0, 0, 0, 0, 1, byte(rapid.IntRange(0, 255).Draw(rt, "h2")), byte(rapid.IntRange(0, 255).Draw(rt, "h3")), 0, 0, 9, 9, 9, 9}
			soup := []byte{}
			n := rapid.IntRange(0, 12).Draw(rt, "soupN")
			for i := 0; i < n; i++ {
				code := model.FormatCode(rapid.SampledFrom(model.AllKinds).Draw(rt, "sk"))
				nlb := rapid.SampledFrom([]int{1, 1, 1, 2, 3, 0}).Draw(rt, "snlb")
				soup = append(soup, byte(code<<2|nlb))
				l := rapid.IntRange(0, 5).Draw(rt, "slen")
				for j := 0; j < nlb; j++ {
					if j == nlb-1 {
						soup = append(soup, byte(l))
					} else {
						soup = append(soup, 0)
					}
				}
				if rapid.Bool().Draw(rt, "spayload") {
					for j := 0; j < l; j++ {
						soup = append(soup, rapid.Byte().Draw(rt, "sp"))
					}
				}
			}
			in = patchLen(append(hdr, soup...))
			origin = "item-soup"
		}
		runCase[c03Input](rt, "C03", "c03", checkC03, c03Input{Bytes: in, Origin: origin})
	})
}

// FuzzC03 is the coverage-guided tier: the same differential inside the target.
func FuzzC03(f *testing.F) {
	for _, s := range fuzzSeedsHSMS() {
		f.Add(s)
	}
	f.Fuzz(func(t *testing.T, in []byte) {
		if len(in) > 1<<16 {
			return
		}
		for _, variant := range [][]byte{in, patchLen(in)} {
			if _, err := safeCheck(checkC03, c03Input{Bytes: variant, Origin: "fuzz"}); err != nil {
				p := writeReplay("C03", "c03", c03Input{Bytes: variant, Origin: "fuzz"}, err)
				t.Fatalf("PROPERTY-VIOLATION property=C03 check=c03 replay=%s\n%v", p, err)
			}
		}
	})
}

// fuzzSeedsHSMS: a few valid encodings plus hostile constants.
func fuzzSeedsHSMS() [][]byte {
	var out [][]byte
	add := func(item *model.Node) {
		m := &model.Msg{Session: 1, Stream: 1, Function: 1, Wait: true, Item: item}
		b, _, err := model.RefEncodeMsg(m, nil)
		if err == nil {
			out = append(out, b)
		}
	}
	add(nil)
	add(&model.Node{Kind: model.L, Children: []model.Child{{Node: &model.Node{Kind: model.A, Str: "abc"}}, {Node: &model.Node{Kind: model.U2, Elems: []model.Elem{{U: 513}}}}}})
	add(&model.Node{Kind: model.F4, Elems: []model.Elem{{F: 0x3FF8000000000000}}})
	add(&model.Node{Kind: model.B, Elems: []model.Elem{{U: 1}, {U: 255}}})
	add(&model.Node{Kind: model.A, Bulk: &model.Bulk{N: 300, Seed: 1}})
	hdr := []byte{0, 1, 0x81, 1, 0, 0, 0, 0, 0, 1}
	for _, text := range [][]byte{{0x01, 0xFF}, {0x41, 0xFF, 0xFF, 0xFF}, {0xA5, 0x03}, {0x43, 0xFF, 0xFF, 0xFF}, {0x03, 0xFF, 0xFF, 0xFF}, {0x21, 0x01}, {0x91, 0x04, 0x7F, 0x80, 0, 0}} {
		out = append(out, patchLen(append(append([]byte{0, 0, 0, 0}, hdr...), text...)))
	}
	out = append(out, []byte{0, 0, 0, 10, 0xFF, 0xFF, 0, 0, 0, 5, 0, 0, 0, 1})
	return out
}

// c03Large: well-formed messages longer than one maximal item (a list's length field counts children, so its
// encoding may exceed 16,777,215 bytes), and the same with one byte missing / appended.
type c03Large struct {
	Kind     string `json:"kind"`
	N        int    `json:"n"`        // elements per child item
	Children int    `json:"children"` // number of equal child items in the list
	Fault    int    `json:"fault"`    // 0 none, 1 last byte missing (outer length patched), 2 one byte appended (outer length patched)
}

func init() { registerReplay("c03large", checkC03Large) }

func checkC03Large(c c03Large) (ci caseInfo, err error) {
	child := &model.Node{Kind: c.Kind, Bulk: &model.Bulk{N: c.N, Seed: uint64(c.N)}}
	root := &model.Node{Kind: model.L}
	for i := 0; i < c.Children; i++ {
		root.Children = append(root.Children, model.Child{Node: child})
	}
	in, _, eerr := model.RefEncodeMsg(&model.Msg{Session: 3, Stream: 5, Function: 7, Wait: true, System: [4]byte{9, 8, 7, 6}, Item: root}, nil)
	if eerr != nil {
		return ci, fmt.Errorf("harness: %v", eerr)
	}
	switch c.Fault {
	case 1:
		in = patchLen(in[:len(in)-1])
	case 2:
		in = patchLen(append(in, 0x00))
	}
	ci.Nontrivial = true
	ci.Key = fmt.Sprintf("large/%s/%d/%d/%d", c.Kind, c.N, c.Children, c.Fault)
	ci.label("large:%d-MiB", len(in)>>20)
	exact := append([]byte(nil), in...)
	msg, ok := hsms.Parse(exact)
	if c.Fault != 0 {
		if ok {
			return ci, fmt.Errorf("%d-byte message around <L[%d] <%s[%d]>...> with fault %d is accepted", len(in), c.Children, c.Kind, c.N, c.Fault)
		}
		return ci, nil
	}
	if !ok {
		return ci, fmt.Errorf("well-formed %d-byte message around <L[%d] <%s[%d]>...> is rejected", len(in), c.Children, c.Kind, c.N)
	}
	if out := msg.ToBytes(); !bytes.Equal(out, in) {
		return ci, fmt.Errorf("%d-byte message around <L[%d] <%s[%d]>...>: re-encoding differs: %s", len(in), c.Children, c.Kind, c.N, firstDiff(out, in))
	}
	return ci, nil
}

func TestC03Large(t *testing.T) {
	shard, nshards := shardInfo()
	cases := []c03Large{{model.A, 8500000, 2, 0}, {model.B, 6000000, 3, 0}, {model.U4, 2100000, 2, 0}, {model.A, 8388608, 2, 0}, {model.A, 8500000, 2, 1}, {model.B, 6000000, 3, 2},
		{model.A, 16777215, 1, 0}, {model.F8, 2097151, 1, 0}}
	if isThorough() {
		cases = append(cases, c03Large{model.A, 16777215, 2, 0}, c03Large{model.I8, 2097151, 3, 0}, c03Large{model.A, 16777215, 2, 1})
	}
	for i, c := range cases {
		if i%nshards == shard {
			runCase[c03Large](t, "C03", "c03large", checkC03Large, c)
		}
	}
}
